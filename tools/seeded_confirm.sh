#!/bin/sh
# Confirm a candidate breaking change in a scratch worktree of /repo's HEAD:
#   (1) the demo passes on the unchanged tree, (2) the patch applies, compiles and the existing
#   test suite passes with it, (3) the demo fails with it.
# usage: tools/seeded_confirm.sh <candidate dir with patch.diff + demo.rs> <scratch worktree dir>
set -u
SRC="$1"; WT="$2"
export CARGO_NET_OFFLINE=true CARGO_TARGET_DIR="$WT/target"
if [ ! -d "$WT/.git" ] && [ ! -f "$WT/.git" ]; then
  git -C /repo worktree add -q --detach "$WT" HEAD || exit 2
fi
cd "$WT" || exit 2
git checkout -q --detach "$(git -C /repo rev-parse HEAD)" 2>/dev/null
git checkout -q -- . ; rm -f cao-lang/tests/demo_seeded.rs
cp "$SRC/demo.rs" cao-lang/tests/demo_seeded.rs
timeout 900 cargo test -p cao-lang --offline --test demo_seeded >"$WT/confirm1.log" 2>&1; demo_clean=$?
if ! git apply --check "$SRC/patch.diff" 2>/dev/null; then
  echo "{\"applies\": false, \"demo_on_clean\": $demo_clean}"; rm -f cao-lang/tests/demo_seeded.rs; exit 0
fi
git apply "$SRC/patch.diff"
mv cao-lang/tests/demo_seeded.rs "$WT/demo_seeded.rs.keep"
timeout 1200 cargo test -p cao-lang --offline >"$WT/confirm2.log" 2>&1; suite=$?
passed=$(grep -E "^test result: ok" "$WT/confirm2.log" | sed -E 's/.*ok\. ([0-9]+) passed.*/\1/' | paste -sd+ | bc)
mv "$WT/demo_seeded.rs.keep" cao-lang/tests/demo_seeded.rs
timeout 900 cargo test -p cao-lang --offline --test demo_seeded >"$WT/confirm3.log" 2>&1; demo_mut=$?
git checkout -q -- . ; rm -f cao-lang/tests/demo_seeded.rs
echo "{\"applies\": true, \"demo_on_clean\": $demo_clean, \"suite_with_patch\": $suite, \"suite_tests_passed\": ${passed:-0}, \"demo_with_patch\": $demo_mut}"
