// How the constants FULL_HASH_FAMILIES of sim/src/checks/c07.rs were found: inverts 32-bit FNV-1a (the
// table hasher) to get a real and an 8-letter string with the same full hash as a small integer.
// rustc -O tools/find_full_hash_families.rs -o /tmp/f && /tmp/f   (half a second)
use std::collections::HashMap;
const P: u64 = 16777619;
const M: u64 = 0xffff_ffff;
fn step(h: u64, b: u8) -> u64 { (((h ^ b as u64) & M) * P) & M }
fn fnv(bytes: &[u8]) -> u64 { let mut h = 2166136261u64; for b in bytes { h = step(h, *b); } h }
fn inv(a: u64) -> u64 { let mut x: u64 = 1; for _ in 0..6 { x = (x.wrapping_mul(2u64.wrapping_sub(a.wrapping_mul(x)))) & M; } x }
fn main() {
    let pinv = inv(P);
    let unstep = |h: u64, b: u8| -> u64 { ((h * pinv) & M) ^ (b as u64) }; // state before byte b
    for target in [-1i64, 0, 1, 2, 5] {
        let t = fnv(&target.to_ne_bytes());
        // real: high word fixed, search low 3 bytes, solve 4th
        let mut real = None;
        'o: for hi in [0x3FF2_0000u32, 0x4004_0000, 0x4010_8000, 0x3FE0_0000, 0x4020_0000, 0x4030_0000,0x4040_0000,0x4050_0000] {
            let hb = hi.to_le_bytes();
            let mut h = t;
            for b in hb.iter().rev() { h = unstep(h, *b); }
            // h = state after low 4 bytes; state after 3 low bytes h3 satisfies step(h3,b3)=h => h3 ^ b3 = h*pinv
            let need = (h * pinv) & M;
            for lo3 in 0u32..(1 << 24) {
                let lb = lo3.to_le_bytes();
                let h3 = fnv(&lb[..3]);
                let b3 = h3 ^ need;
                if b3 < 256 {
                    let bits = ((hi as u64) << 32) | ((b3 as u64) << 24) | lo3 as u64;
                    assert_eq!(fnv(&bits.to_le_bytes()), t);
                    real = Some(bits); break 'o;
                }
            }
        }
        // string of 8 lowercase letters followed by 0xff
        let mut back: HashMap<u64, [u8; 4]> = HashMap::new();
        let hend = unstep(t, 0xff);
        let al: Vec<u8> = (b'a'..=b'z').collect();
        for a in &al { for b in &al { for c in &al { for d in &al {
            let mut h = hend;
            for x in [*d, *c, *b, *a] { h = unstep(h, x); }
            back.insert(h, [*a, *b, *c, *d]);
        }}}}
        let mut s = None;
        'p: for a in &al { for b in &al { for c in &al { for d in &al {
            let h = fnv(&[*a, *b, *c, *d]);
            if let Some(t4) = back.get(&h) {
                let v = vec![*a, *b, *c, *d, t4[0], t4[1], t4[2], t4[3]];
                let mut full = v.clone(); full.push(0xff);
                assert_eq!(fnv(&full), t);
                s = Some(String::from_utf8(v).unwrap()); break 'p;
            }
        }}}}
        println!("({}, {:#x}, {:?}, {:?}),", target, real.unwrap_or(0), real.map(f64::from_bits), s);
    }
}
