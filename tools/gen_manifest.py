#!/usr/bin/env python3
"""Regenerates /verif/MANIFEST.json from the table below (keeps it valid and consistent)."""
import json, os
ROOT = os.path.dirname(os.path.dirname(os.path.abspath(__file__)))

NA = {
 "C01": "pure function of (program, host inputs): no schedule, fault, clock or second party varies; deciding it needs an independent reference interpreter (differential testing), not simulation",
 "C06": "which slot a closure reads/writes and which body it runs are fixed by the program text; the only schedule-dependent aspect (captured variables surviving collection) is C02 and is exercised there",
 "C08": "name resolution is a compile-time function of the module tree; argument binding is a deterministic function of the program; no seam enters it",
 "C10": "static predicate on the output of a pure function (needs an independent bytecode validator, not a simulator)",
 "C11": "de(ser(x)) == x has no fault in it; stream chunking / short reads / EINTR live inside serde_json, ciborium and bincode, outside the anchors",
 "C14": "sequential value types with a fixed backing array, no allocator / collector / clock / second party; a Vec-model comparison would be model-based testing under another name",
 "C16": "edits of a plain owned tree; a failed edit is caused by its own argument, not by an injected fault; no seam",
 "C19": "algebraic laws over pairs and triples of values; stateless, no schedule or fault dimension",
}

CHECKS = {
 "C02": ("exploration",
   "Seeded allocation-rich programs (strings, tables, rows, closures with captured variables, function values, stdlib with script callbacks, allocating and re-entering host stubs) run under collector schedules the simulator decides through the production threshold branch: a collection at every allocation point, at each single allocation point (all of them up to a cap per program), every k-th, random subsets, and the natural schedule under small limits. Oracles: heap audits over a quarantine of swept objects (no reachable object is swept: immediately after each collection, at the next instruction boundary, at host returns, at run end), equality of the observable outcome with the collection-free run, and the same again with real frees. Sampling in programs; per program the single-point schedules are exhaustive up to the cap.",
   "Root set per the property text (stack, globals, active frames' closures, guarded objects, arguments of the running host function); upvalues are reached through the closures that use them and their location is followed wherever it points inside the value stack's memory; popped operands of plain instructions are not roots. A collection-free reference run that ends in OutOfMemory or Timeout, or has more than 20000 allocation points, is discarded. Closures are created in any function and capture whatever locals and parameters are in scope there (since fix 58b28ea made captures frame-relative). Host natives are stubs.",
   "deterministic simulation: seeded programs x controlled collector schedules (forced through the production threshold), quarantine heap audit + differential observation"),
 "C03": ("fault_enumeration",
   "The VM's clock is its instruction budget. Seeded programs with busy work / endless loops reached through 1-3 levels of host re-entry (call0 by card, call0 as a native function value, try0 that swallows its callee's failure), __sort/__min key functions, std.map callbacks and plain calls (plus G-alloc programs); the budget N is swept over every value 1..T+2 (seeded subset above a cap) and boundary values, with a controller that counts every dispatch of every nested activation and unwinds at N+1. Oracles: dispatched <= N; N < T implies Timeout; N > T leaves the outcome unchanged; non-terminating programs always time out. For one terminating program in three the budgets are also tried on a VM with a past: 2-4 runs on one VM, each under its own budget (spare, short, exact), judged against the same history run without limits: every run is bounded by the budget it was started with, whatever earlier runs used or left over.",
   "T is measured by a dry run under an observer cap of 30000 instructions; N == T may go either way; Timeout may be wrapped in TaskFailure; budget 0 belongs to C04.",
   "deterministic simulation: instruction-budget (clock) sweep per program with a global dispatch counter across nested activations"),
 "C12": ("fault_enumeration",
   "Seeded operation histories over hash-controlled keys (home-slot collisions on the growth path, wrap-around, full 32-bit collisions, reserved hash 0) on the real CaoHashMap against a BTreeMap model after every operation, drop-exactly-once for keys and values, allocation ledger; per history the allocation-failure position is swept exhaustively over every allocation made inside a fallible operation, once with drop-counting element types and once with element types without drop glue (what the VM's own Value/Value tables use); three allocators. Sampling in the history dimension, exhaustive in the fault position.",
   "Trusts the harness' FaultAlloc ledger and drop-counting element types; clone()/Default are not fault-injected (cannot report failure); after an injected failure the failed insert's key may be present or absent; H7 step bound defines non-termination.",
   "deterministic simulation: seeded operation histories x exhaustive fail-at-j allocation faults, reference-model oracle"),
 "C13": ("fault_enumeration",
   "Seeded operation histories (colliding / wrapping handles, initial capacities 0-40, powers of two up to 1024 and arbitrary sizes up to 6000, reserve of up to 4200, every insertion path) on the real HandleTable against a BTreeMap model after every operation; per history the allocation-failure position is swept exhaustively over every allocation made inside a fallible operation; three allocators; every history also runs with a value type without drop glue. Sampling in the history dimension, exhaustive in the fault position: a clean batch is evidence, not proof.",
   "Trusts the harness' FaultAlloc ledger and drop-counting value type; entry()/clone() are not fault-injected because their signatures cannot report failure; probe-loop step bound of hook H7 defines non-termination.",
   "deterministic simulation: seeded operation histories x exhaustive fail-at-j allocation faults, reference-model oracle"),
}
# later checks are added by the files tools/manifest_extra_*.json (property -> [category, text, note, technique])
for fn in sorted(os.listdir(os.path.join(ROOT, "tools"))):
    if fn.startswith("manifest_extra_") and fn.endswith(".json"):
        for k, v in json.load(open(os.path.join(ROOT, "tools", fn))).items():
            CHECKS[k] = tuple(v)
            NA.pop(k, None)

ASAN = {"C02", "C04", "C05", "C07", "C09", "C17", "C18"}
checks = []
for pid in sorted(CHECKS):
    cat, text, note, tech = CHECKS[pid]
    if pid in ASAN:
        text += " The thorough tier runs one batch of cases in eight in an AddressSanitizer build of the harness and the crate (real frees), so that accesses to freed or out-of-bounds memory that change nothing observable still stop the run."
    checks.append({
        "property_id": pid,
        "quick_cmd": f"./check {pid} --tier quick",
        "thorough_cmd": f"./check {pid} --tier thorough",
        "evidence_file": f"/verif/evidence/{pid}.json",
        "replay_cmd_template": f"./check {pid} --replay {{path}}",
        "engine": "caosim",
        "level_claimed": {"category": cat, "text": text, "design_ref": f"DESIGN.md section 6 ({pid})"},
        "level_note": note,
        "technique": tech,
    })
all_ids = [f"C{i:02d}" for i in range(1, 20)]
claimed = set(CHECKS)
na = [{"property_id": k, "reason": NA.get(k, "not yet claimed: check under construction (see DESIGN.md)")} for k in all_ids if k not in claimed]
hooks = [l.split()[0] for l in os.popen("git -C /repo log --format='%h %s' | grep 'verif-hooks:'").read().strip().splitlines()]
m = {
 "version": 1,
 "setup_cmd": "cd /verif/sim && CARGO_NET_OFFLINE=true cargo build --release --offline",
 "hooks": {
   "guard": "cargo feature verif-hooks (crate cao-lang)",
   "enable": "shadow manifest /verif/sim/shadow/Cargo.toml builds /repo/cao-lang/src/lib.rs (same package name and dependencies) with --features verif-hooks; ./check rebuilds it from /repo's working tree on every invocation",
   "baseline_off_cmd": "cd /repo && cargo test --workspace --no-fail-fast --offline",
   "source_commits": list(reversed(hooks)),
   "add_only": True},
 "engines": [{"name": "caosim", "path": "/verif/sim", "serves_properties": sorted(claimed),
   "kind_free_text": "deterministic simulator with fault injection: seeded workloads, explicit schedule objects (collector schedule, allocation failure, instruction budget, host behaviour, resource knobs, run/clear histories), worker processes, replay files"}],
 "checks": checks,
 "notes": "Technique family: deterministic simulation with fault injection. See DESIGN.md. Known/fixed findings: /verif/known_findings.jsonl. Seeded breaking changes: /verif/seeded/.",
 "not_applicable": na,
}
json.dump(m, open(os.path.join(ROOT, "MANIFEST.json"), "w"), indent=1)
print("claimed:", sorted(claimed), "not_applicable:", [x["property_id"] for x in na])
