#!/usr/bin/env python3
"""Install confirmed seeded breaking changes under /verif/seeded/<id>/ and write the matrix.

usage: seeded_install.py <candidates dir> <confirm results file> <eval results dir>
  candidates dir: <id>/{patch.diff,demo.rs,README.md}
  confirm results: lines "<id> {json of tools/seeded_confirm.sh}"
  eval results dir: <id>.txt = output of tools/seeded_eval.sh (one line per check)
Only candidates whose confirmation shows: demo passes on the unchanged tree, patch applies, the
existing suite passes with it, the demo fails with it - are installed.
"""
import json, os, re, shutil, subprocess, sys

cand_dir, confirm_file, eval_dir = sys.argv[1:4]
ROOT = os.path.dirname(os.path.dirname(os.path.abspath(__file__)))
head = subprocess.run(["git", "-C", "/repo", "rev-parse", "--short", "HEAD"], capture_output=True, text=True).stdout.strip()

NEEDS = {
    "C02-A": "a closure reachable only through its call frame (called as a temporary), suspended under another frame, with a collection started while the callee's frame is on top",
    "C02-B": "sorted_by_key with more than 5 rows, a key function returning a fresh object, and a collection started by exactly the scratch table's growth allocation",
    "C03-A": "a native that re-enters the script, invoked as a native function VALUE through a dynamic call (CallFunction path), with a callback that does real work",
    "C03-B": "a host function that swallows its callback's error, the budget expiring exactly inside that callback, and the program continuing afterwards",
    "C04-A": "a reference cycle of length >= 2 between tables, one of which is then used as a table key (content hash)",
    "C04-B": "an allocation failure exactly at the bucket-array growth of a script table, the table surviving the failed run, two more failed inserts, then a lookup of an absent key",
    "C05-A": "an allocation failure at exactly the second of the two allocations of a string (header fits, payload does not), then clear or repeated failures",
    "C05-B": "accounted usage plus request landing on the memory limit to the byte",
    "C07-A": "a table grown past 8 buckets to a non-power-of-two capacity and a removal from a probe cluster that wraps around the end of the bucket array",
    "C07-B": "an allocation failure exactly at an insert of a new key that triggers growth of the table, and the table being used afterwards",
    "C09-A": "ties AND more than 20 rows AND an input that is not already sorted",
    "C09-B": "a key function returning fresh objects, the best row not first, and a collection triggered by a later key-function call of the same min/max call",
    "C12-A": "a removal whose following cluster wraps around the end of the bucket array",
    "C12-B": "an allocation failure exactly in grow/reserve, then a look at len/is_empty or further use of the map",
    "C13-A": "removing the entry in the last slot while slot 0 holds an entry that is at home there",
    "C13-B": "an explicit clear() on a table whose value type has no drop glue, followed by any lookup, iteration or re-use",
    "C15-A": "a Timeout that lands exactly on the first instruction of a card, most visibly right after a call or a return",
    "C15-B": "a top-level Comment card before the failing card or before a call card on the active chain",
    "C17-A": "an earlier run that defined >= k globals, clear(), then a program that reads a global with id < k it never assigned",
    "C17-B": "runs that exit at call depth >= 1 (Abort, error, timeout inside a function), the VM reused WITHOUT clear, enough repetitions (or a small call stack)",
    "C18-A": "re-entry plus an erroring callee that fails inside a second host function",
    "C18-B": "a host function calling (run_function) a closure that actually captures a variable",
}

confirm = {}
for line in open(confirm_file):
    line = line.strip()
    if not line:
        continue
    cid, js = line.split(" ", 1)
    confirm[cid] = json.loads(js)

rows = []
for cid in sorted(os.listdir(cand_dir)):
    src = os.path.join(cand_dir, cid)
    c = confirm.get(cid)
    ok = bool(c) and c.get("applies") and c.get("demo_on_clean") == 0 and c.get("suite_with_patch") == 0 and c.get("demo_with_patch") not in (0, None)
    if not ok:
        print(f"{cid}: NOT confirmed ({c}) - not installed")
        continue
    detected = {}
    ev = os.path.join(eval_dir, cid + ".txt")
    if os.path.exists(ev):
        for l in open(ev):
            m = re.match(r"^(C\d\d) exit=(\d+) violations=(\d+) ?(.*)$", l.strip())
            if m:
                detected[m.group(1)] = {"exit": int(m.group(2)), "violations": int(m.group(3)), "first": m.group(4)[:300]}
    dst = os.path.join(ROOT, "seeded", cid)
    os.makedirs(dst, exist_ok=True)
    for f in ("patch.diff", "demo.rs", "README.md"):
        shutil.copy(os.path.join(src, f), os.path.join(dst, f))
    prop = cid.split("-")[0]
    caught_by = sorted(k for k, v in detected.items() if v["exit"] == 1)
    broken = sorted(k for k, v in detected.items() if v["exit"] not in (0, 1))
    meta = {
        "id": cid,
        "breaks_property": prop,
        "origin": "written by a sub-agent that saw only the text of the property and its own scratch worktree of /repo",
        "needs_to_manifest": NEEDS.get(cid, ""),
        "applies_to_repo_commit": head,
        "confirmation": {
            "how": "tools/seeded_confirm.sh in a scratch worktree of /repo HEAD: demo on the unchanged tree, git apply, `cargo test -p cao-lang --offline` with the change, demo with the change",
            "demo_exit_on_unchanged_tree": c["demo_on_clean"],
            "existing_suite_exit_with_change": c["suite_with_patch"],
            "existing_suite_tests_passed_with_change": c["suite_tests_passed"],
            "demo_exit_with_change": c["demo_with_patch"],
        },
        "checks_run": "tools/seeded_eval.sh: git -C /repo apply patch.diff; every registered quick check (VERIF_SEED=1); git -C /repo checkout -- .",
        "detected_by": caught_by,
        "own_property_check_detects": prop in caught_by,
        "results": detected,
        "harness_errors": broken,
    }
    json.dump(meta, open(os.path.join(dst, "meta.json"), "w"), indent=1)
    rows.append((cid, prop, caught_by, prop in caught_by))

with open(os.path.join(ROOT, "seeded", "MATRIX.md"), "w") as f:
    f.write("| seeded change | breaks | caught by its own property's check | all quick checks that report a violation |\n|---|---|---|---|\n")
    for cid, prop, caught, own in rows:
        f.write(f"| {cid} | {prop} | {'yes' if own else 'NO'} | {', '.join(caught) if caught else '-'} |\n")
print(open(os.path.join(ROOT, "seeded", "MATRIX.md")).read())
