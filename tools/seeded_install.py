#!/usr/bin/env python3
"""Install confirmed seeded breaking changes under /verif/seeded/<id>/ and write the matrix.

usage: seeded_install.py <candidates dir> <confirm results file> <eval results dir>
  candidates dir: <id>/{patch.diff,demo.rs,README.md}
  confirm results: lines "<id> {json of tools/seeded_confirm.sh}"
  eval results dir: <id>.txt = output of tools/seeded_eval.sh (one line per check)
Only candidates whose confirmation shows: demo passes on the unchanged tree, patch applies, the
existing suite passes with it, the demo fails with it - are installed.
"""
import json, os, re, shutil, subprocess, sys

cand_dir, confirm_file, eval_dir = sys.argv[1:4]
ROOT = os.path.dirname(os.path.dirname(os.path.abspath(__file__)))
head = subprocess.run(["git", "-C", "/repo", "rev-parse", "--short", "HEAD"], capture_output=True, text=True).stdout.strip()

NEEDS = {
    "C02-A": "a closure reachable only through its call frame (called as a temporary), suspended under another frame, with a collection started while the callee's frame is on top",
    "C02-B": "sorted_by_key with more than 5 rows, a key function returning a fresh object, and a collection started by exactly the scratch table's growth allocation",
    "C03-A": "a native that re-enters the script, invoked as a native function VALUE through a dynamic call (CallFunction path), with a callback that does real work",
    "C03-B": "a host function that swallows its callback's error, the budget expiring exactly inside that callback, and the program continuing afterwards",
    "C04-A": "a reference cycle of length >= 2 between tables, one of which is then used as a table key (content hash)",
    "C04-B": "an allocation failure exactly at the bucket-array growth of a script table, the table surviving the failed run, two more failed inserts, then a lookup of an absent key",
    "C05-A": "an allocation failure at exactly the second of the two allocations of a string (header fits, payload does not), then clear or repeated failures",
    "C05-B": "accounted usage plus request landing on the memory limit to the byte",
    "C07-A": "a table grown past 8 buckets to a non-power-of-two capacity and a removal from a probe cluster that wraps around the end of the bucket array",
    "C07-B": "an allocation failure exactly at an insert of a new key that triggers growth of the table, and the table being used afterwards",
    "C09-A": "ties AND more than 20 rows AND an input that is not already sorted",
    "C09-B": "a key function returning fresh objects, the best row not first, and a collection triggered by a later key-function call of the same min/max call",
    "C12-A": "a removal whose following cluster wraps around the end of the bucket array",
    "C12-B": "an allocation failure exactly in grow/reserve, then a look at len/is_empty or further use of the map",
    "C13-A": "removing the entry in the last slot while slot 0 holds an entry that is at home there",
    "C13-B": "an explicit clear() on a table whose value type has no drop glue, followed by any lookup, iteration or re-use",
    "C15-A": "a Timeout that lands exactly on the first instruction of a card, most visibly right after a call or a return",
    "C15-B": "a top-level Comment card before the failing card or before a call card on the active chain",
    "C17-A": "an earlier run that defined >= k globals, clear(), then a program that reads a global with id < k it never assigned",
    "C17-B": "runs that exit at call depth >= 1 (Abort, error, timeout inside a function), the VM reused WITHOUT clear, enough repetitions (or a small call stack)",
    "C18-A": "re-entry plus an erroring callee that fails inside a second host function",
    "C18-B": "a host function calling (run_function) a closure that actually captures a variable",
    # second round (ids C / D)
    "C02-C": "two open upvalues adjacent in the list, both garbage at the moment of a collection, then anything that walks the list",
    "C02-D": "two collections, the first of which finds no garbage at all, with objects stored into older containers in between",
    "C03-C": "a native that re-enters the script, invoked as a native function value through a dynamic call (same idea as C03-A, written independently)",
    "C03-D": "exactly the budget u64::MAX",
    "C04-C": "a reference cycle through two or more tables, one of them hashed (used as a key) (same idea as C04-A)",
    "C04-D": "a table holding a key that no lookup finds again (NaN, or a table key mutated after the insert) and any consumer of its iterator: comparison, to_array / min / max / sorted, the collector's mark phase",
    "C05-C": "a string with multi-byte characters that is collected or cleared, then a further allocation",
    "C05-D": "more than 1024 garbage objects at one collection",
    "C07-C": "a removal from the last bucket while the cluster continues at bucket 0 (same idea as C12-A)",
    "C07-D": "an allocation failure exactly at the growth of the hash part for a new key, the table used afterwards (same idea as C07-B)",
    "C09-C": "ties and more than 32 rows (same idea as C09-A)",
    "C09-D": "a key function returning fresh objects, a better key found after the first row, a collection during a later callback (close to C09-B)",
    "C12-C": "keys A and Y sharing a home bucket, X at home in the next one, inserted A, X, Y, then remove(A)",
    "C12-D": "keys with drop glue, values without, and an insert of a key that is already present",
    "C13-C": "a run [a][c][d] where c sits in its own home slot, d has its home at or before a's slot, a removed, d looked up",
    "C13-D": "the length at clone time a power of two >= 4 and an absent-handle operation on the clone before any insert",
    "C15-C": "a reused VM, an earlier run that ended inside a called function, then a later failing run (stale frames in its trace)",
    "C15-D": "a failure exactly in a ForEach card's own bookkeeping: stack filling up while a loop variable is bound, budget expiring there, or a bad i/k/v name",
    "C17-C": "a comparison / sort of two distinct equal-length strings whose result is observed, on a VM whose heap was used before",
    "C17-D": "an earlier run that stops while slot 0 is occupied, clear, then a program that pops the empty stack before pushing anything",
    "C18-C": "a host function re-entering a script function when the call stack has 0 or 1 free slots, a callee of arity >= 1, a host that carries on after the error",
    "C18-D": "a function, closure or native function value passed to a bool parameter of a host function",
    # third round (ids E / F); the agents were told which ideas already existed
    "C02-E": "a closure over local X already garbage while X is in scope, a second closure capturing a neighbouring local for the first time, a collection exactly at that upvalue's header allocation",
    "C02-F": "std.min / max / *_by_key on a non-empty table and a collection at exactly the growth of the two-bucket result row",
    "C03-E": "a host function that calls run_function and does not propagate the error (retry), and a callback that fails by running out of budget",
    "C03-F": "callbacks through sort / min / max with an exact instruction count at budget expiry, or a native function value as key function",
    "C04-E": "a string literal, dotted property name or native function name of exactly 253 to 256 bytes",
    "C04-F": "an entry removed while the run of occupied buckets after it continues around the array end and contains a wrapped entry (12 to 40 integer keys in arithmetic progression, then pops)",
    "C05-E": "one request that lifts the charge above the collection threshold and the limit at once while enough of what is allocated is garbage",
    "C05-F": "the program or the host creates empty strings",
    "C07-E": "integer keys set out of order so that the last inserted key is len-1 while the key len exists, then an append",
    "C07-F": "a table with a nil key iterated with the ForEach card",
    "C09-E": "the program defines a top-level function named like a helper of the standard library (row_to_value)",
    "C09-F": "both a positive and a negative zero among the compared values",
    "C12-E": "a map whose key and value types both have no drop glue, clear() on a non-empty map, then len / is_empty or use up to the next growth",
    "C12-F": "exactly reserve(0) while the map is empty, followed by any other operation",
    "C13-E": "an allocation failure exactly at a growth step, followed by len() or further inserts",
    "C13-F": "a new handle added through entry().or_insert_with() exactly on a growth step whose slot differs after doubling",
    "C15-E": "main is not the first function of the root module",
    "C15-F": "an error at recursion depth 2 or more through one and the same call card",
    "C17-E": "a run ending in OutOfMemory with garbage present at the failing allocation, then clear, then a program whose peak is near the limit",
    "C17-F": "a comparison of two distinct equal-length tables with different content, then a later run in which the allocator hands back the same two addresses",
    "C18-E": "a host function calling a native function value via run_function with an argument kind a typed parameter rejects, the host carrying on after the error",
    "C18-F": "a script callee invoked via run_function that fails at call depth 2 or more inside the callee, the host surviving the error",
    # fourth round (ids G / H): evaluated blind, nothing was added to the checks between reading the reports and the evaluation
    "C02-G": "a running closure with a captured variable that is reachable only indirectly (stored in a table, or called from the expression that created it), a collection during the call, the captured variable used afterwards",
    "C02-H": "min_by_key / max_by_key on a table with object values, a key function that replaces or removes the winning entry, a collection exactly inside the allocation of the result row",
    "C03-G": "a host function that tolerates its callback's failure and a callback that uses the budget up: whatever runs afterwards in the same run runs without limit",
    "C03-H": "two runs on one VM: one that completes with budget to spare, then another (whose budget is then the leftover, not max_instr)",
    "C04-G": "a pair of tables reached again at least twice while it is being compared (t[1]=t; t[2]=t; t==t)",
    "C04-H": "a script callback of __min / __max / __sort that fails while it owns nothing on the value stack (budget expiring at its first instruction, call stack exhausted at callback entry, ...)",
    "C05-G": "a collection in which every object is reachable, followed by another collection",
    "C05-H": "a request that crosses the limit only because of garbage, with live + s <= limit < live + 2s (large strings, storage of a growing table)",
    "C07-G": "two distinct real keys closer than f64::EPSILON in one table and a host remove of one of them",
    "C07-H": "a collection that begins exactly in one of the allocations of the \"value\" string inside NthRow",
    "C09-G": "a key function that is not pure (counts its calls, pops a queue)",
    "C09-H": "a filter / any callback that returns a function, closure or native function value",
    "C12-G": "a key whose hash is the reserved value 0",
    "C12-H": "a key type with drop glue and a removal that shifts at least one entry back",
    "C13-G": "a table that went through serde with an entry count that is a power of two >= 4 (or larger than the size hint), then a lookup of an absent handle",
    "C13-H": "capacity >= 16 and a remove whose adjacent successor has a different home slot and an odd handle",
    "C15-G": "a closure that captures a variable and value-stack (or memory) exhaustion exactly at the capture (CopyLast / RegisterUpvalue)",
    "C15-H": "a one-card function directly followed, across a module boundary, by a function with the same index whose first card is a leaf that fails",
    "C17-G": "a program that creates empty strings, then clear (or enough of them)",
    "C17-H": "host code that hands objects back with ObjectGcGuard::into_inner, repeated runs without clear",
    "C18-G": "a failing callee that created a closure over one of its locals and stored it in a global, a host that swallows the failure, the escaped closure called later",
    "C18-H": "a non-nil argument that does not convert, passed to an optional (Nilable) parameter of a host function",
    # fifth round (ids I / J): the agents were told all ideas of the earlier rounds
    "C02-I": "a table used as a key and changed after the insert, a heap value reachable only through that entry, a collection while the key is in its changed state, the key changed back and the value read (re-introduces defect 3567d18 through method resolution)",
    "C02-J": "min_by_key / max_by_key with a key function returning fresh objects, a row that does not improve on the best followed by another row, a collection during that later callback",
    "C03-I": "a for-each over a table with at least as many rows as the budget left, left early (return in the body, std.any), a budget between the real instruction count and the row count",
    "C03-J": "to_array / sorted / min / max on a table with more rows than the budget left at that moment (counter underflows: panic in debug, unbounded run in release)",
    "C04-I": "a for-each that begins when the value stack has at most two usable slots left (recursion depth 125 on the default VM, or a small configured stack)",
    "C04-J": "an import of a MODULE with more super segments than the importing module has parents, used through a dotted call (the function-import form keeps its check)",
    "C05-I": "one guard alive across two collections with the guarded object not otherwise reachable at the second one",
    "C05-J": "a collection that leaves more than half the limit reachable (threshold above the limit) followed by garbage churn; or set_memory_limit to under a quarter of the old limit",
    "C07-I": "a string or real key whose 32-bit key hash equals hash(-1) (one in 2^32) plus a script read of t[-1]",
    "C07-J": "host-side remove of an entry with at least two younger entries, then an order-sensitive read",
    "C09-I": "an Integer and a Real with the same integer part but different value meeting in a deciding comparison of min / max / sorted",
    "C09-J": "std.map with a callback returning a fresh object, a row whose insert grows the result table, the collection threshold crossed exactly inside that growth allocation",
    "C12-I": "two distinct keys with equal full 32-bit hashes, one stored in its home bucket, the other absent, asked through contains()",
    "C12-J": "entry().or_insert_with() of a new key that crosses the load factor, the new key's home bucket in the grown table already occupied",
    "C13-I": "reserve(small n) on a table that already holds entries with count + n above the load factor (e.g. 11 inserts then reserve(1))",
    "C13-J": "a capacity request that does not come from grow() with a particular bit pattern: reserve(n) with count + n = 304, 607, 608, 758, 910, ...",
    "C15-I": "a runtime error raised while more than 31 calls are active and a look at the outer end of the trace",
    "C15-J": "an OutOfMemory raised at call depth >= 1 (the call chain is missing from its trace)",
    "C17-I": "a run ending in OutOfMemory exactly at the header of a string whose buffer was just granted, then clear, then a program whose peak is within the leaked amount of the limit (or the counters, or many repetitions)",
    "C17-J": "an earlier run that created no heap object at all but left globals or stack values behind, then clear, then a program reading a global it never assigned or needing the whole value stack",
    "C18-I": "a host function that re-enters a script which calls the SAME registered host function again while the outer activation is running",
    "C18-J": "a three-parameter typed native, an object argument with no other reference, a collection during the call, the native using the argument afterwards",
}

confirm = {}
for line in open(confirm_file):
    line = line.strip()
    if not line:
        continue
    cid, js = line.split(" ", 1)
    confirm[cid] = json.loads(js)

rows = []
for cid in sorted(os.listdir(cand_dir)):
    src = os.path.join(cand_dir, cid)
    c = confirm.get(cid)
    ok = bool(c) and c.get("applies") and c.get("demo_on_clean") == 0 and c.get("suite_with_patch") == 0 and c.get("demo_with_patch") not in (0, None)
    if not ok:
        print(f"{cid}: NOT confirmed ({c}) - not installed")
        continue
    detected = {}
    ev = os.path.join(eval_dir, cid + ".txt")
    if os.path.exists(ev):
        for l in open(ev):
            m = re.match(r"^(C\d\d) exit=(\d+) violations=(\d+) ?(.*)$", l.strip())
            if m:
                detected[m.group(1)] = {"exit": int(m.group(2)), "violations": int(m.group(3)), "first": m.group(4)[:300]}
    dst = os.path.join(ROOT, "seeded", cid)
    os.makedirs(dst, exist_ok=True)
    for f in ("patch.diff", "demo.rs", "README.md"):
        shutil.copy(os.path.join(src, f), os.path.join(dst, f))
    prop = cid.split("-")[0]
    caught_by = sorted(k for k, v in detected.items() if v["exit"] == 1)
    broken = sorted(k for k, v in detected.items() if v["exit"] not in (0, 1))
    meta = {
        "id": cid,
        "breaks_property": prop,
        "origin": "written by a sub-agent that saw only the text of the property and its own scratch worktree of /repo",
        "needs_to_manifest": NEEDS.get(cid, ""),
        "applies_to_repo_commit": head,
        "confirmation": {
            "how": "tools/seeded_confirm.sh in a scratch worktree of /repo HEAD: demo on the unchanged tree, git apply, `cargo test -p cao-lang --offline` with the change, demo with the change",
            "demo_exit_on_unchanged_tree": c["demo_on_clean"],
            "existing_suite_exit_with_change": c["suite_with_patch"],
            "existing_suite_tests_passed_with_change": c["suite_tests_passed"],
            "demo_exit_with_change": c["demo_with_patch"],
        },
        "evaluated_with_verif_commit": subprocess.run(["git", "-C", ROOT, "rev-parse", "--short", "HEAD"], capture_output=True, text=True).stdout.strip(),
        "checks_run": "tools/seeded_eval.sh: git -C /repo apply patch.diff; every registered quick check (VERIF_SEED=1); git -C /repo checkout -- .",
        "detected_by": caught_by,
        "own_property_check_detects": prop in caught_by,
        "results": detected,
        "harness_errors": broken,
    }
    json.dump(meta, open(os.path.join(dst, "meta.json"), "w"), indent=1)
    rows.append((cid, prop, caught_by, prop in caught_by))

# the matrix covers everything installed so far (all rounds)
rows = []
for cid in sorted(os.listdir(os.path.join(ROOT, "seeded"))):
    mp = os.path.join(ROOT, "seeded", cid, "meta.json")
    if os.path.exists(mp):
        m = json.load(open(mp))
        rows.append((cid, m["breaks_property"], m["detected_by"], m["own_property_check_detects"], m.get("evaluated_with_verif_commit", "")))
with open(os.path.join(ROOT, "seeded", "MATRIX.md"), "w") as f:
    f.write("| seeded change | breaks | caught by its own property's check | all quick checks that report a violation | /verif commit of the evaluation |\n|---|---|---|---|---|\n")
    for cid, prop, caught, own, at in rows:
        f.write(f"| {cid} | {prop} | {'yes' if own else 'NO'} | {', '.join(caught) if caught else '-'} | {at} |\n")
print(open(os.path.join(ROOT, "seeded", "MATRIX.md")).read())
