#!/bin/sh
# Run the registered quick checks against /repo with a seeded change applied, undo it afterwards.
# usage: tools/seeded_eval.sh <seeded dir> [check ids...]   -> prints "ID exit=<rc> violations=<n>" per check
set -u
ROOT="$(cd "$(dirname "$0")/.." && pwd)"
D="$1"; shift
CHECKS="${*:-C02 C03 C04 C05 C07 C09 C12 C13 C15 C17 C18}"
cd /repo || exit 2
if [ -n "$(git status --porcelain)" ]; then echo "/repo not clean"; exit 2; fi
git apply "$D/patch.diff" || { echo "patch does not apply"; exit 2; }
TMPR=$(mktemp -d); cp "$ROOT/known_findings.jsonl" "$TMPR/"
for c in $CHECKS; do
  # evidence / replays of these runs go to a scratch root, not into /verif
  ( cd "$ROOT/sim" && cargo build --release --offline -q 2>/dev/null )
  CAOSIM_NO_SHRINK=1 VERIF_ROOT="$TMPR" "$ROOT/sim/target/release/caosim" check $c --tier quick >"$TMPR/$c.log" 2>&1; rc=$?
  nv=$(grep -c '^VIOLATION' "$TMPR/$c.log")
  first=$(grep -m1 '^violation:' "$TMPR/$c.log" | cut -c1-260)
  echo "$c exit=$rc violations=$nv $first"
done
git checkout -q -- .
rm -rf "$TMPR"
