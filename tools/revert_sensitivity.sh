#!/bin/sh
# For every "fix:" commit in /repo: revert it in the working tree (reverse-apply its patch), run
# the quick tier of the check(s) that found the defect, expect exit 1 (VIOLATION), restore.
# usage: tools/revert_sensitivity.sh            -> writes evidence/revert_sensitivity.txt
set -u
ROOT="$(cd "$(dirname "$0")/.." && pwd)"
OUT="$ROOT/evidence/revert_sensitivity.txt"
cd /repo || exit 2
if [ -n "$(git status --porcelain)" ]; then echo "/repo working tree not clean"; exit 2; fi
map() { # subject -> checks
  case "$1" in
    *HandleTable*) echo C13 ;;
    *CaoHashMap*) echo C12 ;;
    *"gc "*|*"SetProperty, AppendTable"*|*"typed native-function wrappers"*|*"__min/__max/__sort"*) echo C02 ;;
    *"CaoLangTable::pop"*) echo "C07 C02" ;;
    *"instruction budget"*) echo C03 ;;
    *"failed allocation"*|*"collects garbage before"*|*"release the object header"*) echo C05 ;;
    *"clear() resets"*|*"run() removes"*) echo C17 ;;
    *"no longer freed twice"*) echo "C17 C04" ;;
    *"self-referential"*|*"max_instr = 0"*|*"declaring a local"*|*"wrap around"*) echo C04 ;;
    *"function values compare equal"*) echo "C04 C07" ;;
    *"dynamic call like"*|*"repeat count"*|*"first trace entry"*) echo C15 ;;
    *"iterate over a private copy"*) echo C04 ;;
    *"insert_value keeps"*) echo C02 ;;
    *"CloseUpvalue pops"*|*"open upvalues nobody uses"*) echo C05 ;;
    *"failed run_function"*|*"typed native wrappers consume"*) echo C18 ;;
    *"upvalue list holds"*|*"climbs above the root"*|*"moves its entries without comparing"*|*"remember the best row"*|*"tolerates the language"*) echo C04 ;;
    *"marks everything a table stores"*) echo C02 ;;
    *"are traced to the card itself"*) echo C15 ;;
    *"captures the locals of the frame"*) echo C18 ;;
    *"parameter of the entry function"*) echo C04 ;;
    *"set_memory_limit stores"*) echo C17 ;;
    *) echo "" ;;
  esac
}
{
echo "revert sensitivity: each fix commit reverted in the working tree, quick tier of the finding check(s)"
git log --reverse --format='%h %s' | grep ' fix: ' | while read -r h subj; do
  checks=$(map "$subj")
  if ! git show "$h" -- cao-lang/src | git apply -R --check 2>/dev/null; then
    echo "$h SKIPPED (later commits touch the same lines) :: $subj"
    continue
  fi
  git show "$h" -- cao-lang/src | git apply -R
  res=""
  # evidence / replays of these runs go to a scratch root, not into /verif
  TMPR=$(mktemp -d); cp "$ROOT/known_findings.jsonl" "$TMPR/"
  ( cd "$ROOT/sim" && cargo build --release --offline -q 2>/dev/null )
  for c in $checks; do
    VERIF_ROOT="$TMPR" "$ROOT/sim/target/release/caosim" check "$c" --tier quick >"$TMPR/log" 2>&1; rc=$?
    nv=$(grep -c '^VIOLATION' "$TMPR/log")
    res="$res $c:exit=$rc,violations=$nv"
  done
  rm -rf "$TMPR"
  git checkout -q -- .
  echo "$h$res :: $subj"
done
} > "$OUT.tmp"
mv "$OUT.tmp" "$OUT"
( cd "$ROOT/sim" && cargo build --release --offline -q 2>/dev/null )
cat "$OUT"
