#!/bin/sh
# Determinism proof (DESIGN 8.1): every check, several VERIF_SEED values, each executed twice in
# separate processes with different worker counts; the evidence (all counters, the set size of
# distinct non-trivial runs, evaluations, verdict) must be identical. Writes evidence/determinism.txt
# usage: tools/determinism.sh [cases-per-check] [seeds...]
set -u
ROOT="$(cd "$(dirname "$0")/.." && pwd)"
CASES="${1:-400}"
shift 2>/dev/null || true
SEEDS="${*:-1 2 3 4 5 6 7 8}"
BIN="$ROOT/sim/target/release/caosim"
( cd "$ROOT/sim" && cargo build --release --offline -q ) || exit 2
OUT="$ROOT/evidence/determinism.txt"
T1=$(mktemp -d) ; T2=$(mktemp -d)
cp "$ROOT/known_findings.jsonl" "$T1/" ; cp "$ROOT/known_findings.jsonl" "$T2/"
fail=0
{
echo "determinism proof: cases per check = $CASES, seeds = $SEEDS, worker counts 16 vs 3"
for id in C02 C03 C04 C05 C07 C09 C12 C13 C15 C17 C18; do
  for s in $SEEDS; do
    VERIF_ROOT="$T1" CAOSIM_CASES="$CASES" "$BIN" check $id --tier quick --seed $s --jobs 16 >/dev/null 2>&1 ; r1=$?
    VERIF_ROOT="$T2" CAOSIM_CASES="$CASES" "$BIN" check $id --tier quick --seed $s --jobs 3  >/dev/null 2>&1 ; r2=$?
    a=$(python3 -c "
import json,sys,hashlib
e=json.load(open(sys.argv[1]))
c=e['coverage']
d={k:c[k] for k in ('evaluations','distinct_nontrivial','counters','cases','distinct_violation_signatures','samples')}
d['violations']=e['violations']
print(hashlib.sha256(json.dumps(d,sort_keys=True).encode()).hexdigest()[:16], c['evaluations'], c['distinct_nontrivial'])
" "$T1/evidence/$id.json")
    b=$(python3 -c "
import json,sys,hashlib
e=json.load(open(sys.argv[1]))
c=e['coverage']
d={k:c[k] for k in ('evaluations','distinct_nontrivial','counters','cases','distinct_violation_signatures','samples')}
d['violations']=e['violations']
print(hashlib.sha256(json.dumps(d,sort_keys=True).encode()).hexdigest()[:16], c['evaluations'], c['distinct_nontrivial'])
" "$T2/evidence/$id.json")
    if [ "$a" = "$b" ] && [ "$r1" = "$r2" ]; then st=same; else st=DIFFERENT; fail=1; fi
    echo "$id seed=$s exit=$r1/$r2 digest+runs+distinct: [$a] [$b] $st"
  done
done
if [ $fail = 0 ]; then echo "RESULT: deterministic"; else echo "RESULT: NON-DETERMINISTIC"; fi
} | tee "$OUT"
rm -rf "$T1" "$T2"
exit $fail
