#!/usr/bin/env python3
"""Regenerate /verif/seeded/MATRIX.md from the meta.json files of all installed seeded changes."""
import json, os
ROOT = os.path.dirname(os.path.dirname(os.path.abspath(__file__)))
rows = []
for cid in sorted(os.listdir(os.path.join(ROOT, "seeded"))):
    mp = os.path.join(ROOT, "seeded", cid, "meta.json")
    if os.path.exists(mp):
        m = json.load(open(mp))
        rows.append((cid, m["breaks_property"], m["detected_by"], m["own_property_check_detects"], m.get("evaluated_with_verif_commit", ""),
                     "re-run " + m["re_evaluated"]["verif_commit"] if "re_evaluated" in m else ""))
with open(os.path.join(ROOT, "seeded", "MATRIX.md"), "w") as f:
    f.write("| seeded change | breaks | reported by its own property's check | all quick checks that report a violation | /verif commit of the full evaluation | own check re-run after strengthening |\n|---|---|---|---|---|---|\n")
    for r in rows:
        f.write(f"| {r[0]} | {r[1]} | {'yes' if r[3] else 'NO'} | {', '.join(r[2]) if r[2] else '-'} | {r[4]} | {r[5]} |\n")
own = sum(1 for r in rows if r[3]); anyc = sum(1 for r in rows if r[2])
print(f"{len(rows)} seeded changes, {anyc} reported by at least one check, {own} by the check of their own property")
