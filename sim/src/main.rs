//! caosim - deterministic simulation with fault injection for cao-lang.
mod checks;
mod ctl;
mod gen;
mod kernel;

use kernel::Tier;

fn usage() -> ! {
    eprintln!(
        "usage:\n  caosim check <ID> [--tier quick|thorough] [--seed N] [--jobs J]\n  caosim replay <ID> <file>\n  caosim list\n  (internal) caosim worker <ID> <tier> <seed> <from> <to>\n  (internal) caosim replay-worker <ID> <file>"
    );
    std::process::exit(2);
}

fn main() {
    if std::env::var_os("ASAN_OPTIONS").is_none() {
        // for the AddressSanitizer flavour (inherited by the workers): abort (signal) on a report,
        // and keep the sanitizer's own bookkeeping small - a worker creates thousands of VMs
        std::env::set_var(
            "ASAN_OPTIONS",
            "detect_leaks=0:quarantine_size_mb=8:malloc_context_size=0:allocator_release_to_os_interval_ms=-1:abort_on_error=1",
        );
    }
    let args: Vec<String> = std::env::args().collect();
    if args.len() < 2 {
        usage();
    }
    match args[1].as_str() {
        "list" => {
            for c in checks::registry() {
                println!("{} {}", c.id(), c.level());
            }
        }
        "worker" => {
            if args.len() < 7 {
                usage();
            }
            let Some(check) = checks::find(&args[2]) else { usage() };
            let tier = Tier::parse(&args[3]).unwrap_or(Tier::Quick);
            let seed: u64 = args[4].parse().unwrap_or(1);
            let from: u64 = args[5].parse().unwrap_or(0);
            let to: u64 = args[6].parse().unwrap_or(0);
            std::process::exit(kernel::worker::run_worker(check, tier, seed, from, to));
        }
        "replay-worker" => {
            if args.len() < 4 {
                usage();
            }
            let Some(check) = checks::find(&args[2]) else { usage() };
            let s = std::fs::read_to_string(&args[3]).unwrap_or_default();
            let Ok(v) = serde_json::from_str::<serde_json::Value>(&s) else {
                std::process::exit(2)
            };
            std::process::exit(kernel::worker::run_replay_worker(check, &v));
        }
        "minimise-worker" => {
            if args.len() < 4 {
                usage();
            }
            let Some(check) = checks::find(&args[2]) else { usage() };
            let s = std::fs::read_to_string(&args[3]).unwrap_or_default();
            let Ok(v) = serde_json::from_str::<serde_json::Value>(&s) else {
                std::process::exit(2)
            };
            std::process::exit(kernel::worker::run_minimise_worker(check, &v));
        }
        "run-json" => {
            // debugging aid: run a Module given as JSON under a collector plan, print what happened
            let Some(path) = args.get(2) else { usage() };
            let txt = std::fs::read_to_string(path).unwrap_or_default();
            let Ok(m) = serde_json::from_str::<cao_lang::compiler::Module>(&txt) else {
                eprintln!("not a Module");
                std::process::exit(2)
            };
            kernel::worker::install_panic_hook();
            let gc = match args.get(3).map(|s| s.as_str()) {
                Some("every") => ctl::vmctl::GcPlan::Every,
                Some("never") => ctl::vmctl::GcPlan::Never,
                _ => ctl::vmctl::GcPlan::Natural,
            };
            let quarantine = gc != ctl::vmctl::GcPlan::Natural;
            match checks::vmcommon::compile_module(&m) {
                checks::vmcommon::Compiled::Ok(p) => {
                    println!("{}", p.disassemble_string());
                    let cfg = ctl::vmctl::CtlConfig { gc, quarantine, event_log: true, ..Default::default() };
                    let budget = std::env::var("CAOSIM_BUDGET").ok().and_then(|b| b.parse().ok()).unwrap_or(100_000u64);
                    let mut knobs = ctl::vmrun::Knobs { budget, ..Default::default() };
                    if let Some(m) = std::env::var("CAOSIM_MEM").ok().and_then(|b| b.parse().ok()) {
                        knobs.mem_limit = m;
                    }
                    let out = ctl::vmrun::run_program(&p, &knobs, cfg, Default::default());
                    println!("result: {} {}", out.result, out.error_msg);
                    if !out.trace.is_empty() {
                        println!("trace: {}", out.trace.iter().map(|t| t.to_string()).collect::<Vec<_>>().join(" <- "));
                    }
                    if std::env::var_os("CAOSIM_TRACE_TABLE").is_some() {
                        let mut ks: Vec<_> = p.trace.iter().map(|(k, v)| (*k, v.to_string())).collect();
                        ks.sort();
                        for (k, v) in ks {
                            println!("trace-table {k} -> {v}");
                        }
                    }
                    for (k, v) in out.globals.iter() {
                        println!("global {k} = {}", v.short());
                    }
                    println!("end stack height {} call depth {} dangling-open-upvalue sightings {}", out.end_stack_height, out.end_call_depth, out.counters.dangling_open_upvalue);
                    println!(
                        "dispatches {} allocations {} collections {} (forced {}) swept {} peak accounted {} accounted at end {}",
                        out.counters.dispatches, out.counters.allocs, out.counters.gcs, out.counters.gcs_forced, out.counters.swept,
                        out.counters.peak_allocated, out.end_allocated
                    );
                    for f in out.findings.iter() {
                        println!("finding: {} {}", f.kind, f.what);
                    }
                    if std::env::var_os("CAOSIM_EVENTS").is_some() {
                        for e in out.events.iter() {
                            println!("{e}");
                        }
                    }
                }
                checks::vmcommon::Compiled::Err(e) => println!("compile error: {e}"),
                checks::vmcommon::Compiled::Panic(p) => println!("compile panic: {}", p.msg),
            }
        }
        "replay" => {
            if args.len() < 4 {
                usage();
            }
            let Some(check) = checks::find(&args[2]) else { usage() };
            std::process::exit(kernel::driver::run_replay(check, std::path::Path::new(&args[3])));
        }
        "check" => {
            if args.len() < 3 {
                usage();
            }
            let Some(check) = checks::find(&args[2]) else {
                eprintln!("unknown property {}", args[2]);
                std::process::exit(2)
            };
            let mut tier = std::env::var("VERIF_TIER")
                .ok()
                .and_then(|t| Tier::parse(&t))
                .unwrap_or(Tier::Quick);
            let mut seed: u64 = std::env::var("VERIF_SEED")
                .ok()
                .and_then(|s| s.parse().ok())
                .unwrap_or(1);
            let mut jobs: usize = std::env::var("VERIF_JOBS")
                .ok()
                .and_then(|s| s.parse().ok())
                .unwrap_or_else(|| {
                    std::thread::available_parallelism()
                        .map(|n| n.get())
                        .unwrap_or(8)
                        .min(16)
                });
            let mut i = 3;
            while i < args.len() {
                match args[i].as_str() {
                    "--tier" => {
                        i += 1;
                        tier = args.get(i).and_then(|t| Tier::parse(t)).unwrap_or_else(|| usage());
                    }
                    "--seed" => {
                        i += 1;
                        seed = args.get(i).and_then(|t| t.parse().ok()).unwrap_or_else(|| usage());
                    }
                    "--jobs" => {
                        i += 1;
                        jobs = args.get(i).and_then(|t| t.parse().ok()).unwrap_or_else(|| usage());
                    }
                    "--replay" => {
                        i += 1;
                        let Some(p) = args.get(i) else { usage() };
                        std::process::exit(kernel::driver::run_replay(check, std::path::Path::new(p)));
                    }
                    _ => usage(),
                }
                i += 1;
            }
            std::process::exit(kernel::driver::run_check(check, tier, seed, jobs.max(1)));
        }
        _ => usage(),
    }
}
