//! G-alloc: seeded generator of allocation-rich, terminating, well-scoped card programs.
//!
//! Well-scoped by construction: every value slot holds a value-producing card; statement level
//! cards leave nothing on the value stack; new locals are introduced only at function level or
//! at the top of a loop body (Repeat / ForEach); anonymous-local cards (Array, Repeat, ForEach)
//! appear only at statement level.
//! Terminating by construction: static calls only go to functions with a higher index; function
//! values (and therefore dynamic calls, host re-entry and stdlib callbacks) only refer to leaf
//! functions / closures whose bodies contain no calls; loops are bounded, except that a loop body
//! may mutate the table it iterates (the dry run's budget discards those programs).
//! Acyclic heap by construction: only scalars, strings, function values and *fresh* tables are
//! stored into tables.
use crate::kernel::Rng;
use cao_lang::compiler::{
    BinaryExpression, Card, CardBody, ForEach, Function, Module, Repeat, UnaryExpression,
};

#[derive(Clone, Debug)]
pub struct GenCfg {
    pub max_funcs: usize,
    pub max_stmts: usize,
    pub closures: bool,
    pub stdlib: bool,
    pub host_reentry: bool,
    pub host_fail: bool,
    pub loops: bool,
    pub long_strings: bool,
    pub wide_tables: bool,
}

impl GenCfg {
    pub fn swarm(rng: &mut Rng) -> GenCfg {
        GenCfg {
            max_funcs: 1 + rng.usize(5),
            max_stmts: 3 + rng.usize(10),
            closures: rng.chance(2, 3),
            stdlib: rng.chance(1, 2),
            host_reentry: rng.chance(1, 2),
            host_fail: false,
            loops: rng.chance(3, 4),
            long_strings: rng.chance(1, 4),
            wide_tables: rng.chance(1, 3),
        }
    }
}

#[derive(Clone, Copy, PartialEq, Debug)]
enum Ty {
    Int,
    Str,
    Table,
    /// function value of the given arity (leaf: safe to call dynamically)
    Fun(usize),
    Any,
}

#[derive(Clone, Debug)]
struct Var {
    name: String,
    ty: Ty,
    /// may be assigned (loop counters and for-each variables may not)
    assignable: bool,
}

#[derive(Clone, Debug)]
struct FnSig {
    name: String,
    arity: usize,
    leaf: bool,
    param_tys: Vec<Ty>,
}

struct G<'r> {
    rng: &'r mut Rng,
    cfg: GenCfg,
    funcs: Vec<FnSig>,
    globals: Vec<Var>,
    fresh: usize,
    cur: usize,
    /// inside a closure body: which outer (main) variables may be captured
    capturable: Vec<Var>,
    in_closure: usize,
    in_leaf: bool,
    loop_depth: usize,
    /// generating a key function for a native-backed std function: it must not mutate tables
    /// (the natives iterate the input table while the callback runs)
    pure_leaf: bool,
}

fn bin(a: Card, b: Card) -> BinaryExpression {
    Box::new([a, b])
}
fn un(a: Card) -> UnaryExpression {
    UnaryExpression::new(a)
}
fn c(b: CardBody) -> Card {
    b.into()
}

impl<'r> G<'r> {
    fn fresh_name(&mut self, p: &str) -> String {
        self.fresh += 1;
        format!("{p}{}", self.fresh)
    }

    fn str_lit(&mut self) -> Card {
        if self.rng.chance(1, 15) {
            // the empty string: a zero-length payload
            return Card::string_card("");
        }
        self.fresh += 1;
        let n = if self.cfg.long_strings && self.rng.chance(1, 4) {
            40 + self.rng.usize(200)
        } else {
            self.rng.usize(12)
        };
        let mut s = format!("s{}", self.fresh);
        // one string in five has multi-byte characters (byte length and char count differ)
        let wide = self.rng.chance(1, 5);
        while s.len() < n {
            if wide && s.len() % 3 == 0 {
                s.push(['é', 'ß', '→', '語', '🦀'][s.len() / 3 % 5]);
            } else {
                s.push((b'a' + (s.len() % 26) as u8) as char);
            }
        }
        Card::string_card(s)
    }

    /// a short string drawn from a small pool: equal text in distinct objects (table keys)
    fn key_str(&mut self) -> Card {
        let pool = ["a", "b", "key", "value", "k1", "k2", "n", "v", ""];
        Card::string_card(*self.rng.pick(&pool))
    }

    fn vars_of<'a>(&self, scope: &'a [Var], want: impl Fn(Ty) -> bool) -> Vec<&'a Var> {
        scope.iter().filter(|v| want(v.ty)).collect()
    }

    fn read_any_of(&mut self, scope: &[Var], want: impl Fn(Ty) -> bool + Copy) -> Option<Card> {
        let mut cands: Vec<String> = scope.iter().filter(|v| want(v.ty)).map(|v| v.name.clone()).collect();
        if self.in_closure > 0 {
            cands.extend(self.capturable.iter().filter(|v| want(v.ty)).map(|v| v.name.clone()));
        }
        cands.extend(self.globals.iter().filter(|v| want(v.ty)).map(|v| v.name.clone()));
        if cands.is_empty() {
            return None;
        }
        let n = self.rng.pick(&cands).clone();
        Some(Card::read_var(n))
    }

    fn int_expr(&mut self, scope: &[Var], depth: usize) -> Card {
        let pick = if depth == 0 { self.rng.below(2) } else { self.rng.below(7) };
        match pick {
            0 => Card::scalar_int(self.rng.range(-3, 9)),
            1 => self
                .read_any_of(scope, |t| t == Ty::Int)
                .unwrap_or_else(|| Card::scalar_int(self.rng.range(0, 5))),
            2 => c(CardBody::Add(bin(self.int_expr(scope, depth - 1), self.int_expr(scope, depth - 1)))),
            3 => c(CardBody::Sub(bin(self.int_expr(scope, depth - 1), self.int_expr(scope, depth - 1)))),
            4 => {
                let e = self.any_expr(scope, depth - 1);
                c(CardBody::Len(un(e)))
            }
            5 => c(CardBody::Less(bin(self.int_expr(scope, depth - 1), self.int_expr(scope, depth - 1)))),
            _ => c(CardBody::Equals(bin(self.scalar_expr(scope, depth - 1), self.scalar_expr(scope, depth - 1)))),
        }
    }

    fn scalar_expr(&mut self, scope: &[Var], depth: usize) -> Card {
        if self.rng.chance(1, 2) {
            self.int_expr(scope, depth)
        } else {
            self.str_expr(scope, depth)
        }
    }

    fn str_expr(&mut self, scope: &[Var], depth: usize) -> Card {
        match self.rng.below(if depth == 0 { 3 } else { 4 }) {
            0 | 1 => self.str_lit(),
            2 => self.read_any_of(scope, |t| t == Ty::Str).unwrap_or_else(|| self.str_lit()),
            _ => {
                let a = self.int_expr(scope, depth - 1);
                Card::call_native("mk_str", vec![a])
            }
        }
    }

    fn key_expr(&mut self, scope: &[Var], depth: usize) -> Card {
        match self.rng.below(4) {
            0 => Card::scalar_int(self.rng.range(0, if self.cfg.wide_tables { 20 } else { 4 })),
            1 => self.key_str(),
            2 => self.str_lit(),
            _ => self.int_expr(scope, depth.min(1)),
        }
    }

    /// expression that evaluates to a table (or, rarely, something else of type Any)
    fn table_expr(&mut self, scope: &[Var], depth: usize) -> Card {
        match self.rng.below(if depth == 0 { 3 } else { 5 }) {
            0 => c(CardBody::CreateTable),
            1 | 2 => self.read_any_of(scope, |t| t == Ty::Table).unwrap_or_else(|| c(CardBody::CreateTable)),
            3 => {
                let a = self.scalar_expr(scope, depth - 1);
                if self.rng.chance(1, 3) {
                    // nested value built through the host API insert_value
                    Card::call_native("mk_owned", vec![a])
                } else {
                    Card::call_native("mk_table", vec![a])
                }
            }
            _ => {
                // row object of an existing table
                let t = self.read_any_of(scope, |t| t == Ty::Table).unwrap_or_else(|| c(CardBody::CreateTable));
                c(CardBody::Get(bin(t, Card::scalar_int(self.rng.range(0, 3)))))
            }
        }
    }

    /// a value that may be stored inside a table without creating a cycle
    fn storable_expr(&mut self, scope: &[Var], depth: usize) -> Card {
        match self.rng.below(8) {
            0 | 1 => self.int_expr(scope, depth),
            2 | 3 => self.str_expr(scope, depth),
            4 => c(CardBody::ScalarNil),
            5 => c(CardBody::CreateTable),
            6 => {
                let a = self.scalar_expr(scope, depth.min(1));
                Card::call_native("mk_table", vec![a])
            }
            _ => {
                if self.cfg.closures {
                    let ar = self.rng.usize(3);
                    self.fun_expr(scope, ar)
                } else {
                    c(CardBody::ScalarFloat(self.rng.range(-4, 4) as f64 * 0.5))
                }
            }
        }
    }

    fn leaf_fn_with_arity(&mut self, arity: usize) -> Option<String> {
        let cands: Vec<String> = self
            .funcs
            .iter()
            .filter(|f| f.leaf && f.arity == arity)
            .map(|f| f.name.clone())
            .collect();
        if cands.is_empty() {
            None
        } else {
            Some(self.rng.pick(&cands).clone())
        }
    }

    /// a function value of the given arity: leaf function, closure, or variable holding one
    fn fun_expr(&mut self, scope: &[Var], arity: usize) -> Card {
        let choice = self.rng.below(4);
        if choice == 0 {
            if let Some(v) = self.read_any_of(scope, |t| t == Ty::Fun(arity)) {
                return v;
            }
        }
        if choice <= 1 || !self.cfg.closures || self.in_closure >= 2 {
            if let Some(n) = self.leaf_fn_with_arity(arity) {
                return c(CardBody::Function(n));
            }
        }
        self.closure_expr(scope, arity)
    }

    /// key function of a native-backed std call: half of the time a fresh closure that does not
    /// mutate any table, otherwise any function value (the natives work on a private copy of the
    /// table, so a key function that mutates the table being processed is legal)
    fn pure_fun_expr(&mut self, scope: &[Var], arity: usize) -> Card {
        if self.rng.chance(1, 2) {
            return self.fun_expr(scope, arity);
        }
        if !self.cfg.closures || self.in_closure >= 2 {
            return c(CardBody::Function("keyfn".to_string()));
        }
        let saved = self.pure_leaf;
        self.pure_leaf = true;
        let r = self.closure_expr(scope, arity);
        self.pure_leaf = saved;
        r
    }

    fn closure_expr(&mut self, scope: &[Var], arity: usize) -> Card {
        // parameters
        let mut params = vec![];
        let mut inner: Vec<Var> = vec![];
        for _ in 0..arity {
            let n = self.fresh_name("p");
            params.push(n.clone());
            inner.push(Var { name: n, ty: Ty::Any, assignable: true });
        }
        // what may be captured: the locals in scope of whichever function creates the closure
        // (until fix 58b28ea only the locals of `main` were captured correctly: the upvalue was
        // registered by absolute stack index)
        let saved_capt = self.capturable.clone();
        if self.in_closure == 0 {
            self.capturable = scope.to_vec();
        }
        self.in_closure += 1;
        let saved_leaf = self.in_leaf;
        self.in_leaf = true;
        let mut cards = vec![];
        let nst = self.rng.usize(3);
        for _ in 0..nst {
            let st = self.leaf_stmt(&mut inner);
            cards.push(st);
        }
        // sometimes the closure's frame is suspended under another frame (script call or host
        // re-entry) before it touches its captured variables again; never inside leaf functions
        // (they are reachable from everywhere as values: a call from there could recurse)
        if !saved_leaf && !self.pure_leaf && self.in_closure == 1 && self.rng.chance(1, 2) {
            self.in_leaf = false;
            let call = if self.rng.chance(1, 2) { self.call_expr(&inner, 1) } else { None };
            self.in_leaf = true;
            let call = match call {
                Some(c) => Some(c),
                None if self.cfg.host_reentry => self
                    .leaf_fn_with_arity(0)
                    .map(|n| Card::call_native("call0", vec![c(CardBody::Function(n))])),
                None => None,
            };
            if let Some(call) = call {
                let n = self.fresh_name("cr");
                cards.push(Card::set_var(n.clone(), call));
                inner.push(Var { name: n, ty: Ty::Any, assignable: false });
            }
        }
        // sometimes write a captured variable
        if !self.capturable.is_empty() && self.rng.chance(1, 2) {
            let pure = self.pure_leaf;
            let cands: Vec<Var> = self
                .capturable
                .iter()
                .filter(|v| v.assignable && !(pure && v.ty != Ty::Int && v.ty != Ty::Str))
                .cloned()
                .collect();
            if !cands.is_empty() {
                let v = self.rng.pick(&cands).clone();
                let e = self.expr_of(&inner, v.ty, 1);
                cards.push(Card::set_var(v.name, e));
            }
        }
        let ret = if !self.capturable.is_empty() && self.rng.chance(1, 3) {
            let v = self.rng.pick(&self.capturable.clone()).clone();
            Card::read_var(v.name)
        } else {
            self.any_leaf_expr(&inner, 2)
        };
        cards.push(Card::return_card(ret));
        self.in_leaf = saved_leaf;
        self.in_closure -= 1;
        if self.in_closure == 0 {
            self.capturable = saved_capt;
        }
        c(CardBody::Closure(Box::new(Function { arguments: params, cards })))
    }

    fn expr_of(&mut self, scope: &[Var], ty: Ty, depth: usize) -> Card {
        match ty {
            Ty::Int => self.int_expr(scope, depth),
            Ty::Str => self.str_expr(scope, depth),
            Ty::Table => self.table_expr(scope, depth),
            Ty::Fun(a) => self.fun_expr(scope, a),
            Ty::Any => self.any_expr(scope, depth),
        }
    }

    /// expression without calls into script functions (used in leaf bodies)
    fn any_leaf_expr(&mut self, scope: &[Var], depth: usize) -> Card {
        match self.rng.below(6) {
            0 => self.int_expr(scope, depth),
            1 => self.str_expr(scope, depth),
            2 => self.table_expr(scope, depth),
            3 => self.read_any_of(scope, |_| true).unwrap_or_else(|| c(CardBody::ScalarNil)),
            4 => {
                let t = self.table_expr(scope, depth.min(1));
                let k = self.key_expr(scope, 1);
                Card::get_property(t, k)
            }
            _ => c(CardBody::ScalarNil),
        }
    }

    fn call_expr(&mut self, scope: &[Var], depth: usize) -> Option<Card> {
        if self.in_leaf {
            return None;
        }
        let cands: Vec<FnSig> = self
            .funcs
            .iter()
            .enumerate()
            .filter(|(i, _)| *i > self.cur)
            .map(|(_, f)| f.clone())
            .collect();
        if cands.is_empty() {
            return None;
        }
        let f = self.rng.pick(&cands).clone();
        let mut args = vec![];
        // args are pushed left to right and bound in reverse: param j gets arg (arity-1-j)
        for j in (0..f.arity).rev() {
            let ty = f.param_tys[j];
            args.push(self.expr_of(scope, ty, depth.min(1)));
        }
        Some(Card::call_function(f.name, args))
    }

    /// An array literal long enough to make the natives' scratch tables grow several times. Array
    /// literals only work as the value of a statement (their hidden local takes the next stack
    /// slot), so functions declare them up front as locals named `lt..`.
    fn long_array(&mut self) -> Card {
        let n = 6 + self.rng.usize(30);
        let strings = self.rng.chance(1, 3);
        c(CardBody::Array(
            (0..n)
                .map(|_| {
                    if strings {
                        self.str_lit()
                    } else {
                        Card::scalar_int(self.rng.range(0, 12))
                    }
                })
                .collect(),
        ))
    }

    fn std_call(&mut self, scope: &[Var]) -> Card {
        let long: Vec<&Var> = scope.iter().filter(|v| v.name.starts_with("lt")).collect();
        let long = if long.is_empty() { None } else { Some(Card::read_var(long[self.rng.usize(long.len())].name.clone())) };
        let t = match &long {
            Some(l) if self.rng.chance(1, 2) => l.clone(),
            _ => self.table_expr(scope, 1),
        };
        if long.is_some() && self.rng.chance(1, 4) {
            // a key function that returns a fresh object for every row, over a long table: the
            // natives have to keep every key alive while their scratch tables grow
            let (pk, pv) = (self.fresh_name("p"), self.fresh_name("p"));
            let fresh = match self.rng.below(3) {
                0 => Card::call_native("mk_str", vec![Card::read_var(pv.clone())]),
                1 => c(CardBody::Array(vec![Card::read_var(pv.clone())])),
                _ => self.str_lit(),
            };
            // sometimes the key function first replaces the row it was called for (the long table
            // is also reachable through a global of the same name): the old value then lives only
            // in the native's private copy of the table
            let mut cards = vec![];
            let t = long.unwrap();
            if self.rng.chance(1, 2) {
                if let CardBody::ReadVar(name) = &t.body {
                    let replacement = self.str_lit();
                    cards.push(Card::set_property(replacement, Card::read_var(format!("g_{name}")), Card::read_var(pk.clone())));
                }
            }
            cards.push(Card::return_card(fresh));
            let keyfn = c(CardBody::Closure(Box::new(Function { arguments: vec![pk, pv], cards })));
            let name = ["std.sorted_by_key", "std.min_by_key", "std.max_by_key"][self.rng.usize(3)];
            return Card::call_function(name, vec![keyfn, t]);
        }
        match self.rng.below(9) {
            0 => Card::call_function("std.map", vec![self.fun_expr(scope, 3), t]),
            1 => Card::call_function("std.filter", vec![self.fun_expr(scope, 3), t]),
            2 => Card::call_function("std.any", vec![self.fun_expr(scope, 3), t]),
            3 => Card::call_function("std.min", vec![t]),
            4 => Card::call_function("std.max", vec![t]),
            5 => Card::call_function("std.sorted", vec![t]),
            6 => Card::call_function("std.to_array", vec![t]),
            7 => {
                let f = self.pure_fun_expr(scope, 2);
                Card::call_function("std.sorted_by_key", vec![f, t])
            }
            _ => {
                let f = self.pure_fun_expr(scope, 2);
                Card::call_function(
                    if self.rng.chance(1, 2) { "std.min_by_key" } else { "std.max_by_key" },
                    vec![f, t],
                )
            }
        }
    }

    fn any_expr(&mut self, scope: &[Var], depth: usize) -> Card {
        if depth == 0 || self.in_leaf {
            return self.any_leaf_expr(scope, depth);
        }
        match self.rng.below(10) {
            0..=3 => self.any_leaf_expr(scope, depth),
            4 | 5 => self.call_expr(scope, depth).unwrap_or_else(|| self.any_leaf_expr(scope, depth)),
            6 => {
                // dynamic call of a leaf function value
                let ar = self.rng.usize(3);
                let f = self.fun_expr(scope, ar);
                let args: Vec<Card> = (0..ar).map(|_| self.any_leaf_expr(scope, 1)).collect();
                Card::dynamic_call(f, args)
            }
            7 if self.cfg.host_reentry => {
                let ar = self.rng.usize(3);
                let f = self.fun_expr(scope, ar);
                let mut args = vec![f];
                for _ in 0..ar {
                    args.push(self.any_leaf_expr(scope, 1));
                }
                Card::call_native(["call0", "call1", "call2"][ar], args)
            }
            8 if self.cfg.stdlib => self.std_call(scope),
            _ => {
                let a = self.any_leaf_expr(scope, 1);
                Card::call_native("id", vec![a])
            }
        }
    }

    fn guess_ty(&mut self) -> Ty {
        match self.rng.below(8) {
            0 | 1 => Ty::Int,
            2 | 3 => Ty::Str,
            4 | 5 => Ty::Table,
            6 if self.cfg.closures => Ty::Fun(self.rng.usize(3)),
            _ => Ty::Any,
        }
    }

    /// statement allowed in leaf bodies and nested blocks: never declares a new local
    fn simple_stmt(&mut self, scope: &[Var]) -> Card {
        let pick = if self.pure_leaf { *self.rng.pick(&[0u64, 2, 6, 8]) } else { self.rng.below(9) };
        match pick {
            0 | 1 => {
                // assign an existing local
                let cands: Vec<Var> = scope.iter().filter(|v| v.assignable).cloned().collect();
                if cands.is_empty() {
                    let e = self.any_expr(scope, 1);
                    return Card::set_global_var(self.global_for(Ty::Any), e);
                }
                let v = self.rng.pick(&cands).clone();
                let e = self.expr_of(scope, v.ty, 2);
                Card::set_var(v.name, e)
            }
            2 => {
                let ty = self.guess_ty();
                let e = self.expr_of(scope, ty, 2);
                Card::set_global_var(self.global_for(ty), e)
            }
            3 | 4 => {
                let v = self.storable_expr(scope, 1);
                let t = self.table_expr(scope, 1);
                let k = self.key_expr(scope, 1);
                Card::set_property(v, t, k)
            }
            5 => {
                let v = self.storable_expr(scope, 1);
                let t = self.table_expr(scope, 1);
                c(CardBody::AppendTable(bin(v, t)))
            }
            6 => {
                let e = self.any_expr(scope, 2);
                Card::set_global_var(self.global_for(Ty::Any), Card::call_native("log", vec![e]))
            }
            7 => {
                let t = self.table_expr(scope, 1);
                Card::set_global_var(self.global_for(Ty::Any), c(CardBody::PopTable(un(t))))
            }
            _ => {
                let e = self.any_expr(scope, 2);
                Card::set_global_var(self.global_for(Ty::Any), e)
            }
        }
    }

    fn leaf_stmt(&mut self, scope: &mut Vec<Var>) -> Card {
        if self.rng.chance(1, 3) {
            // new local at the top level of the leaf body
            let ty = self.guess_ty();
            let ty = if matches!(ty, Ty::Fun(_)) { Ty::Any } else { ty };
            let e = self.expr_of(scope, ty, 1);
            let n = self.fresh_name("l");
            scope.push(Var { name: n.clone(), ty, assignable: true });
            Card::set_var(n, e)
        } else {
            self.simple_stmt(scope)
        }
    }

    fn global_for(&mut self, ty: Ty) -> String {
        // a few globals per type so that reads are well typed most of the time
        let cands: Vec<String> = self.globals.iter().filter(|g| g.ty == ty).map(|g| g.name.clone()).collect();
        if !cands.is_empty() && (cands.len() >= 2 || self.rng.chance(1, 2)) {
            return self.rng.pick(&cands).clone();
        }
        let n = format!("g{}", self.globals.len());
        self.globals.push(Var { name: n.clone(), ty, assignable: true });
        n
    }

    fn block(&mut self, scope: &[Var], n: usize) -> Card {
        let cards: Vec<Card> = (0..n).map(|_| self.simple_stmt(scope)).collect();
        Card::composite_card("block", cards)
    }

    /// top-level statement of a function / loop body: may declare locals, may be a loop
    fn stmt(&mut self, scope: &mut Vec<Var>) -> Card {
        let w: [u32; 9] = if self.cfg.loops && self.loop_depth < 2 {
            [30, 30, 6, 8, 8, 5, 5, 4, 4]
        } else {
            [30, 30, 6, 0, 0, 0, 5, 4, 0]
        };
        match self.rng.weighted(&w) {
            0 => {
                // new local
                let ty = self.guess_ty();
                let e = self.expr_of(scope, ty, 2);
                let n = self.fresh_name("l");
                scope.push(Var { name: n.clone(), ty, assignable: true });
                Card::set_var(n, e)
            }
            1 => self.simple_stmt(scope),
            2 => {
                // table literal
                let n = self.rng.usize(if self.cfg.wide_tables { 12 } else { 4 });
                let items: Vec<Card> = (0..n).map(|_| self.storable_expr(scope, 1)).collect();
                let name = self.fresh_name("l");
                scope.push(Var { name: name.clone(), ty: Ty::Table, assignable: true });
                Card::set_var(name, c(CardBody::Array(items)))
            }
            3 => {
                // repeat
                let n = Card::scalar_int(self.rng.range(0, 5));
                let iname = self.fresh_name("i");
                let mut inner = scope.clone();
                inner.push(Var { name: iname.clone(), ty: Ty::Int, assignable: false });
                self.loop_depth += 1;
                let k = 1 + self.rng.usize(3);
                let body: Vec<Card> = (0..k).map(|_| self.stmt(&mut inner)).collect();
                self.loop_depth -= 1;
                c(CardBody::Repeat(Box::new(Repeat {
                    i: Some(iname),
                    n,
                    body: Card::composite_card("body", body),
                })))
            }
            4 => {
                // for each over a table
                let it = self.table_expr(scope, 1);
                let (i, k, v) = (self.fresh_name("i"), self.fresh_name("k"), self.fresh_name("v"));
                let mut inner = scope.clone();
                inner.push(Var { name: v.clone(), ty: Ty::Any, assignable: false });
                inner.push(Var { name: k.clone(), ty: Ty::Any, assignable: false });
                inner.push(Var { name: i.clone(), ty: Ty::Int, assignable: false });
                self.loop_depth += 1;
                let n = 1 + self.rng.usize(3);
                let body: Vec<Card> = (0..n).map(|_| self.stmt(&mut inner)).collect();
                self.loop_depth -= 1;
                c(CardBody::ForEach(Box::new(ForEach {
                    i: Some(i),
                    k: Some(k),
                    v: Some(v),
                    iterable: Box::new(it),
                    body: Box::new(Card::composite_card("body", body)),
                })))
            }
            5 => {
                // while with a dedicated counter (declared by a preceding statement of this card)
                let cn = self.fresh_name("w");
                scope.push(Var { name: cn.clone(), ty: Ty::Int, assignable: false });
                let n = self.rng.range(0, 4);
                self.loop_depth += 1;
                let k = 1 + self.rng.usize(2);
                let mut body: Vec<Card> = (0..k).map(|_| self.simple_stmt(scope)).collect();
                self.loop_depth -= 1;
                body.push(Card::set_var(
                    cn.clone(),
                    c(CardBody::Add(bin(Card::read_var(cn.clone()), Card::scalar_int(1)))),
                ));
                Card::composite_card(
                    "while",
                    vec![
                        Card::set_var(cn.clone(), Card::scalar_int(0)),
                        c(CardBody::While(Box::new([
                            c(CardBody::Less(bin(Card::read_var(cn), Card::scalar_int(n)))),
                            Card::composite_card("body", body),
                        ]))),
                    ],
                )
            }
            6 => {
                let cond = self.int_expr(scope, 2);
                let n1 = 1 + self.rng.usize(2);
                let n2 = 1 + self.rng.usize(2);
                match self.rng.below(3) {
                    0 => c(CardBody::IfTrue(bin(cond, self.block(scope, n1)))),
                    1 => c(CardBody::IfFalse(bin(cond, self.block(scope, n1)))),
                    _ => c(CardBody::IfElse(Box::new([cond, self.block(scope, n1), self.block(scope, n2)]))),
                }
            }
            7 => {
                // call a function for its result into a new local
                let e = self.any_expr(scope, 2);
                let n = self.fresh_name("l");
                scope.push(Var { name: n.clone(), ty: Ty::Any, assignable: true });
                Card::set_var(n, e)
            }
            _ => {
                // closure created in a loop-capable position, stored in a local
                if self.cfg.closures {
                    let ar = self.rng.usize(3);
                    let e = self.closure_expr(scope, ar);
                    let n = self.fresh_name("f");
                    scope.push(Var { name: n.clone(), ty: Ty::Fun(ar), assignable: true });
                    Card::set_var(n, e)
                } else {
                    self.simple_stmt(scope)
                }
            }
        }
    }

    fn function(&mut self, idx: usize) -> Function {
        self.cur = idx;
        let sig = self.funcs[idx].clone();
        self.in_leaf = sig.leaf;
        let mut scope: Vec<Var> = vec![];
        let mut f = Function::default();
        for (j, ty) in sig.param_tys.iter().enumerate() {
            let n = format!("a{idx}_{j}");
            f.arguments.push(n.clone());
            scope.push(Var { name: n, ty: *ty, assignable: true });
        }
        if !sig.leaf && self.cfg.stdlib && self.rng.chance(1, 2) {
            let name = format!("lt{idx}");
            let arr = self.long_array();
            f.cards.push(Card::set_var(name.clone(), arr));
            f.cards.push(Card::set_global_var(format!("g_{name}"), Card::read_var(name.clone())));
            scope.push(Var { name, ty: Ty::Table, assignable: false });
        }
        let n = if sig.leaf { self.rng.usize(3) } else { 1 + self.rng.usize(self.cfg.max_stmts) };
        for _ in 0..n {
            let st = if sig.leaf { self.leaf_stmt(&mut scope) } else { self.stmt(&mut scope) };
            f.cards.push(st);
        }
        if !sig.leaf && self.rng.chance(1, 5) {
            // a table used as a key, changed while it is a key (its content hash moves: no lookup
            // finds the entry), some allocation in between, the key restored and looked up again:
            // whatever the entry holds has to survive the collections in between
            let (mk, mt) = (format!("mk{idx}"), format!("mt{idx}"));
            f.cards.push(Card::set_var(mk.clone(), c(CardBody::CreateTable)));
            f.cards.push(Card::set_var(mt.clone(), c(CardBody::CreateTable)));
            let held = if self.rng.chance(1, 2) { self.str_lit() } else { Card::call_native("mk_table", vec![Card::scalar_int(self.rng.range(0, 9))]) };
            f.cards.push(Card::set_property(held, Card::read_var(mt.clone()), Card::read_var(mk.clone())));
            f.cards.push(c(CardBody::AppendTable(bin(Card::scalar_int(self.rng.range(0, 9)), Card::read_var(mk.clone())))));
            let filler = self.stmt(&mut scope);
            f.cards.push(filler);
            let junk = self.str_lit();
            f.cards.push(Card::set_global_var(self.global_for(Ty::Str), junk));
            f.cards.push(Card::set_global_var(self.global_for(Ty::Int), c(CardBody::PopTable(un(Card::read_var(mk.clone()))))));
            f.cards.push(Card::set_global_var(self.global_for(Ty::Any), Card::get_property(Card::read_var(mt), Card::read_var(mk))));
        }
        if idx != 0 {
            let r = if sig.leaf { self.any_leaf_expr(&scope, 2) } else { self.any_expr(&scope, 2) };
            f.cards.push(Card::return_card(r));
        } else {
            // make sure something observable depends on the heap
            let e = self.any_expr(&scope, 2);
            f.cards.push(Card::set_global_var("result", e));
        }
        f
    }
}

/// Generate a module. Function 0 is `main`; the last functions are leaf callbacks of arity 0..3.
pub fn gen_program(rng: &mut Rng, cfg: &GenCfg) -> Module {
    let nf = 1 + rng.usize(cfg.max_funcs.max(1));
    let mut funcs = vec![FnSig { name: "main".into(), arity: 0, leaf: false, param_tys: vec![] }];
    for i in 1..nf {
        let arity = rng.usize(4);
        let param_tys = (0..arity)
            .map(|_| match rng.below(4) {
                0 => Ty::Int,
                1 => Ty::Str,
                2 => Ty::Table,
                _ => Ty::Any,
            })
            .collect();
        funcs.push(FnSig { name: format!("f{i}"), arity, leaf: false, param_tys });
    }
    // leaf callbacks: one per arity 0..=3
    for ar in 0..4usize {
        funcs.push(FnSig {
            name: format!("leaf{ar}"),
            arity: ar,
            leaf: true,
            param_tys: vec![Ty::Any; ar],
        });
    }
    let mut g = G {
        rng,
        cfg: cfg.clone(),
        funcs,
        globals: vec![],
        fresh: 0,
        cur: 0,
        capturable: vec![],
        in_closure: 0,
        in_leaf: false,
        loop_depth: 0,
        pure_leaf: false,
    };
    let mut module = Module::default();
    let n = g.funcs.len();
    // generate callees first so that globals they write exist for main's reads (names only)
    let mut bodies: Vec<(usize, Function)> = vec![];
    for idx in (0..n).rev() {
        let f = g.function(idx);
        bodies.push((idx, f));
    }
    bodies.sort_by_key(|(i, _)| *i);
    // main initialises every global with a value of its type, so that reads rarely fail
    let mut init: Vec<Card> = vec![];
    for gv in g.globals.clone() {
        let e = match gv.ty {
            Ty::Int => Card::scalar_int(0),
            Ty::Str => Card::string_card("init"),
            Ty::Table => c(CardBody::CreateTable),
            Ty::Fun(a) => c(CardBody::Function(format!("leaf{a}"))),
            Ty::Any => c(CardBody::ScalarNil),
        };
        init.push(Card::set_global_var(gv.name, e));
    }
    if let Some((_, main)) = bodies.iter_mut().find(|(i, _)| *i == 0) {
        init.extend(std::mem::take(&mut main.cards));
        main.cards = init;
    }
    for (i, f) in bodies {
        module.functions.push((g.funcs[i].name.clone(), f));
    }
    // a pure key function (key, value) -> value
    module.functions.push((
        "keyfn".to_string(),
        Function::default()
            .with_arg("k")
            .with_arg("v")
            .with_card(Card::return_card(Card::read_var("v"))),
    ));
    module
}
