//! G-hostile: well-scoped programs that do the things C04 names: call non-functions, apply every
//! operator / table instruction to wrongly typed operands, use i64 extremes, compare / hash / key
//! by self-referential tables, recurse deeply, use very long strings.
//! G-adversarial: arbitrary (ill-scoped, ill-named) modules for the compile half.
use crate::kernel::Rng;
use cao_lang::compiler::{Card, CardBody, ForEach, Function, Module, Repeat, UnaryExpression};

fn c(b: CardBody) -> Card {
    b.into()
}
fn bin(a: Card, b: Card) -> Box<[Card; 2]> {
    Box::new([a, b])
}
fn un(a: Card) -> UnaryExpression {
    UnaryExpression::new(a)
}

fn nan() -> Card {
    c(CardBody::Div(bin(c(CardBody::ScalarFloat(0.0)), c(CardBody::ScalarFloat(0.0)))))
}

/// a value of a random kind (never needs locals)
fn any_value(rng: &mut Rng) -> Card {
    match rng.below(14) {
        0 => c(CardBody::ScalarNil),
        1 => Card::scalar_int(rng.range(-3, 3)),
        2 => Card::scalar_int(i64::MAX),
        3 => Card::scalar_int(i64::MIN),
        4 => match rng.below(7) {
            // NaN and infinity are computed, not written as literals: JSON has no spelling for
            // them and a replay file must hold exactly the program that ran
            0 => nan(),
            1 => c(CardBody::Div(bin(c(CardBody::ScalarFloat(1.0)), c(CardBody::ScalarFloat(0.0))))),
            _ => c(CardBody::ScalarFloat(*rng.pick(&[0.0, -0.0, 1.5, -1e300, 9.3e18]))),
        },
        5 => Card::string_card(""),
        6 => Card::string_card("x".repeat(rng.usize(300))),
        7 => c(CardBody::CreateTable),
        8 => Card::read_var("cyc"),
        9 => Card::read_var("tbl"),
        10 => c(CardBody::Function("helper".into())),
        11 => c(CardBody::NativeFunction("id".into())),
        12 => c(CardBody::NativeFunction("no-such-native".into())),
        _ => c(CardBody::Closure(Box::new(
            Function::default().with_arg("a").with_card(Card::return_card(Card::read_var("a"))),
        ))),
    }
}

fn hostile_expr(rng: &mut Rng) -> Card {
    let a = any_value(rng);
    let b = any_value(rng);
    match rng.below(30) {
        0 => c(CardBody::Add(bin(a, b))),
        1 => c(CardBody::Sub(bin(a, b))),
        2 => c(CardBody::Mul(bin(a, b))),
        3 => c(CardBody::Div(bin(a, b))),
        4 => c(CardBody::Less(bin(a, b))),
        5 => c(CardBody::LessOrEq(bin(a, b))),
        6 => c(CardBody::Equals(bin(a, b))),
        7 => c(CardBody::NotEquals(bin(a, b))),
        8 => c(CardBody::And(bin(a, b))),
        9 => c(CardBody::Or(bin(a, b))),
        10 => c(CardBody::Xor(bin(a, b))),
        11 => c(CardBody::Not(un(a))),
        12 => c(CardBody::Len(un(a))),
        13 => c(CardBody::GetProperty(bin(a, b))),
        14 => c(CardBody::Get(bin(a, b))),
        15 => c(CardBody::PopTable(un(a))),
        16 => Card::dynamic_call(a, vec![b]),
        17 => Card::dynamic_call(a, vec![]),
        18 => Card::call_function("helper", vec![a]),
        19 => Card::call_function("helper", vec![]),
        20 => Card::call_native("id", vec![a]),
        21 => Card::call_native("call1", vec![a, b]),
        22 => Card::call_native("call0", vec![a]),
        23 => Card::call_function("std.sorted", vec![a]),
        24 => Card::call_function("std.min", vec![a]),
        25 => Card::call_function("std.map", vec![a, b]),
        26 => Card::call_function("std.sorted_by_key", vec![a, b]),
        27 => Card::call_function("std.to_array", vec![a]),
        28 => Card::call_function("std.filter", vec![a, b]),
        _ => Card::call_function("deep", vec![Card::scalar_int(rng.range(0, 400))]),
    }
}

/// a library call whose callback mutates the very table the library function is working on
fn mutating_callback_stmt(rng: &mut Rng, i: usize) -> Card {
    let mutation = match rng.below(4) {
        0 => c(CardBody::AppendTable(bin(Card::scalar_int(99), Card::read_var("big")))),
        1 => Card::set_property(Card::string_card("new"), Card::read_var("big"), Card::string_card(format!("fresh key {i}"))),
        2 => Card::set_global_var("popped", c(CardBody::PopTable(un(Card::read_var("big"))))),
        _ => Card::composite_card(
            "grow",
            (0..12).map(|j| c(CardBody::AppendTable(bin(Card::scalar_int(j), Card::read_var("big"))))).collect(),
        ),
    };
    let (fname, params): (&str, Vec<&str>) = match rng.below(6) {
        0 => ("std.sorted_by_key", vec!["key", "value"]),
        1 => ("std.min_by_key", vec!["key", "value"]),
        2 => ("std.max_by_key", vec!["key", "value"]),
        3 => ("std.map", vec!["k", "v", "i"]),
        4 => ("std.filter", vec!["k", "v", "i"]),
        _ => ("std.any", vec!["k", "v", "i"]),
    };
    let mut f = Function::default();
    for p in params.iter() {
        f = f.with_arg(p);
    }
    // mutate only a few times so that the run stays short
    f.cards = vec![
        Card::set_var("budget", c(CardBody::Add(bin(Card::read_var("budget"), Card::scalar_int(1))))),
        c(CardBody::IfTrue(bin(c(CardBody::Less(bin(Card::read_var("budget"), Card::scalar_int(4)))), mutation))),
        Card::return_card(Card::read_var(params[1])),
    ];
    Card::set_global_var(
        format!("m{i}"),
        Card::call_function(fname, vec![c(CardBody::Closure(Box::new(f))), Card::read_var("big")]),
    )
}

fn hostile_stmt(rng: &mut Rng, i: usize) -> Card {
    if rng.chance(1, 8) {
        return mutating_callback_stmt(rng, i);
    }
    let a = any_value(rng);
    let b = any_value(rng);
    let d = any_value(rng);
    match rng.below(16) {
        // ordering functions over more than 20 rows with NaN (and nil, and strings) among the numbers:
        // the language's comparison is not a total order
        13 => {
            let n = 21 + rng.range(0, 60);
            let kind = rng.below(3);
            let items: Vec<Card> = (0..n)
                .map(|j| match (j + kind as i64) % 5 {
                    0 => nan(),
                    1 if kind == 1 => c(CardBody::ScalarNil),
                    2 if kind == 2 => Card::string_card("x".repeat((j % 7) as usize)),
                    _ => Card::scalar_int((j * 37) % 64),
                })
                .collect();
            let call = match rng.below(5) {
                0 => Card::call_function("std.sorted", vec![Card::read_var(format!("na{i}"))]),
                1 => Card::call_function("std.min", vec![Card::read_var(format!("na{i}"))]),
                2 => Card::call_function("std.max", vec![Card::read_var(format!("na{i}"))]),
                3 => Card::call_function("std.sorted_by_key", vec![c(CardBody::Function("second".into())), Card::read_var(format!("na{i}"))]),
                _ => Card::call_function("std.min_by_key", vec![c(CardBody::Function("second".into())), Card::read_var(format!("na{i}"))]),
            };
            Card::composite_card("unordered", vec![Card::set_var(format!("na{i}"), c(CardBody::Array(items))), Card::set_global_var(format!("h{i}"), call)])
        }
        // a key function that changes the table which is the row's key
        14 => {
            let f = ["std.min_by_key", "std.max_by_key", "std.sorted_by_key"][rng.usize(3)];
            Card::composite_card(
                "key-function-changes-the-key",
                vec![
                    Card::set_var(format!("kt{i}"), c(CardBody::CreateTable)),
                    Card::set_var(format!("kk{i}"), c(CardBody::CreateTable)),
                    Card::set_property(Card::scalar_int(1), Card::read_var(format!("kt{i}")), Card::read_var(format!("kk{i}"))),
                    Card::set_property(Card::scalar_int(2), Card::read_var(format!("kt{i}")), Card::read_var("tbl")),
                    Card::set_global_var(format!("h{i}"), Card::call_function(f, vec![c(CardBody::Function("grow_key".into())), Card::read_var(format!("kt{i}"))])),
                ],
            )
        }
        // two tables stored as distinct keys that compare equal again later, then the table grows
        15 => {
            let mut cards = vec![
                Card::set_var(format!("dt{i}"), c(CardBody::CreateTable)),
                Card::set_var(format!("da{i}"), c(CardBody::CreateTable)),
                Card::set_var(format!("db{i}"), c(CardBody::CreateTable)),
                Card::set_property(Card::scalar_int(1), Card::read_var(format!("dt{i}")), Card::read_var(format!("da{i}"))),
                c(CardBody::AppendTable(bin(Card::scalar_int(5), Card::read_var(format!("da{i}"))))),
                Card::set_property(Card::scalar_int(2), Card::read_var(format!("dt{i}")), Card::read_var(format!("db{i}"))),
                c(CardBody::PopTable(un(Card::read_var(format!("da{i}"))))),
            ];
            for j in 0..(4 + rng.range(0, 30)) {
                cards.push(Card::set_property(Card::scalar_int(j), Card::read_var(format!("dt{i}")), Card::scalar_int(100 + j)));
            }
            cards.push(Card::set_global_var(format!("h{i}"), c(CardBody::Len(un(Card::read_var(format!("dt{i}")))))));
            Card::composite_card("equal-again", cards)
        }
        // fill a table with an arithmetic progression of integer keys (clusters that wrap around the
        // end of the bucket array at one capacity or another), then take everything out again
        12 => {
            let n = 6 + rng.range(0, 40);
            let start = rng.range(0, 600);
            let step = 1 + rng.range(0, 16);
            let key = c(CardBody::Add(bin(Card::scalar_int(start), c(CardBody::Mul(bin(Card::read_var(format!("wi{i}")), Card::scalar_int(step)))))));
            Card::composite_card(
                "fill-and-drain",
                vec![
                    c(CardBody::Repeat(Box::new(Repeat {
                        i: Some(format!("wi{i}")),
                        n: Card::scalar_int(n),
                        body: Card::set_property(Card::read_var(format!("wi{i}")), Card::read_var("wrapt"), key),
                    }))),
                    c(CardBody::Repeat(Box::new(Repeat {
                        i: None,
                        n: Card::scalar_int(n + 1),
                        body: Card::set_global_var("drained", c(CardBody::PopTable(un(Card::read_var("wrapt"))))),
                    }))),
                ],
            )
        }
        0 => Card::set_property(a, b, d),
        1 => c(CardBody::AppendTable(bin(a, b))),
        2 => c(CardBody::ForEach(Box::new(ForEach {
            i: Some(format!("fi{i}")),
            k: Some(format!("fk{i}")),
            v: Some(format!("fv{i}")),
            iterable: Box::new(a),
            body: Box::new(Card::set_global_var("fe", Card::read_var(format!("fv{i}")))),
        }))),
        3 => c(CardBody::Repeat(Box::new(Repeat {
            i: Some(format!("ri{i}")),
            n: a,
            body: Card::set_global_var("rp", Card::read_var(format!("ri{i}"))),
        }))),
        4 => c(CardBody::While(Box::new([a, Card::set_global_var("wh", b)]))),
        5 => c(CardBody::IfElse(Box::new([a, Card::set_global_var("ie", b), Card::set_global_var("ie", d)]))),
        6 => Card::set_global_var(format!("h{i}"), c(CardBody::Array(vec![a, b, d]))),
        7 => Card::set_var(format!("cyc.self{i}"), a),
        8 => Card::set_global_var(format!("h{i}"), Card::read_var("cyc.me.me.me")),
        _ => Card::set_global_var(format!("h{i}"), hostile_expr(rng)),
    }
}

pub fn gen_hostile(rng: &mut Rng) -> Module {
    let mut main = Function::default();
    // parameters nobody passes: the entry function declares some (nothing is on the stack for
    // them), or a function is called with fewer arguments than it declares; the parameter is read,
    // assigned and captured by a closure
    let short_args = rng.below(5);
    if short_args == 0 {
        let k = 1 + rng.usize(3);
        for j in 0..k {
            main.arguments.push(format!("mp{j}"));
        }
        let which = format!("mp{}", rng.usize(k));
        match rng.below(3) {
            0 => main.cards.push(Card::set_global_var("mp_read", Card::read_var(which))),
            1 => main.cards.push(Card::set_var(which, Card::scalar_int(3))),
            _ => main.cards.push(Card::set_global_var(
                "mp_capt",
                Card::dynamic_call(
                    c(CardBody::Closure(Box::new(Function::default().with_cards(vec![
                        Card::set_var(which.clone(), Card::string_card("written through a capture")),
                        Card::return_card(Card::read_var(which)),
                    ])))),
                    vec![],
                ),
            )),
        }
    } else if short_args == 1 {
        let given = rng.usize(3);
        let args: Vec<Card> = (0..given).map(|_| any_value(rng)).collect();
        main.cards.push(Card::set_global_var("short_call", Card::call_function("capt3", args)));
    }
    // a self-referential table and an ordinary one
    main.cards.push(Card::set_var("cyc", c(CardBody::CreateTable)));
    main.cards.push(Card::set_property(Card::read_var("cyc"), Card::read_var("cyc"), Card::string_card("me")));
    main.cards.push(Card::set_var("tbl", c(CardBody::CreateTable)));
    main.cards.push(Card::set_property(Card::scalar_int(1), Card::read_var("tbl"), Card::string_card("a")));
    // a table with enough entries that growing it reallocates its storage, and a counter the
    // mutating callbacks use
    main.cards.push(Card::set_var("budget", Card::scalar_int(0)));
    main.cards.push(Card::set_var("wrapt", c(CardBody::CreateTable)));
    main.cards.push(Card::set_var("big", c(CardBody::CreateTable)));
    for j in 0..5 {
        main.cards.push(c(CardBody::AppendTable(bin(Card::scalar_int(10 - j), Card::read_var("big")))));
    }
    if rng.chance(1, 3) {
        // mutual cycle
        main.cards.push(Card::set_property(Card::read_var("cyc"), Card::read_var("tbl"), Card::string_card("c")));
        main.cards.push(Card::set_property(Card::read_var("tbl"), Card::read_var("cyc"), Card::string_card("t")));
    }
    let lost_keys = rng.chance(1, 3);
    if lost_keys {
        // keys that no lookup finds again: NaN, and a table that is changed while it is a key
        main.cards.push(Card::set_var("lostk", c(CardBody::CreateTable)));
        main.cards.push(Card::set_property(Card::string_card("held by a lost key"), Card::read_var("tbl"), Card::read_var("lostk")));
        main.cards.push(c(CardBody::AppendTable(bin(Card::scalar_int(5), Card::read_var("lostk")))));
        if rng.chance(1, 2) {
            main.cards.push(Card::set_property(Card::scalar_int(2), Card::read_var("tbl"), nan()));
        }
    }
    let n = 1 + rng.usize(3);
    for i in 0..n {
        main.cards.push(hostile_stmt(rng, i));
    }
    if lost_keys {
        // everything that walks the table's entries
        let consumer = match rng.below(6) {
            0 => c(CardBody::Equals(bin(Card::read_var("tbl"), Card::read_var("tbl")))),
            1 => Card::call_function("std.to_array", vec![Card::read_var("tbl")]),
            2 => Card::call_function("std.sorted", vec![Card::read_var("tbl")]),
            3 => Card::call_function("std.min", vec![Card::read_var("tbl")]),
            4 => c(CardBody::Len(un(Card::read_var("tbl")))),
            _ => Card::set_property(Card::scalar_int(1), c(CardBody::CreateTable), Card::read_var("tbl")),
        };
        main.cards.push(Card::set_global_var("walked", consumer));
    }
    main.cards.push(Card::set_global_var("done", Card::scalar_int(1)));
    let mut m = Module::default();
    m.functions.push(("main".into(), main));
    m.functions.push((
        "helper".into(),
        Function::default().with_arg("x").with_card(Card::return_card(Card::read_var("x"))),
    ));
    m.functions.push((
        "second".into(),
        Function::default().with_arg("k").with_arg("v").with_card(Card::return_card(Card::read_var("v"))),
    ));
    m.functions.push((
        "grow_key".into(),
        Function::default().with_arg("k").with_arg("v").with_cards(vec![
            c(CardBody::IfTrue(bin(
                c(CardBody::Equals(bin(c(CardBody::Len(un(Card::read_var("k")))), Card::scalar_int(0)))),
                c(CardBody::AppendTable(bin(Card::scalar_int(7), Card::read_var("k")))),
            ))),
            Card::return_card(Card::read_var("v")),
        ]),
    ));
    // capt3(a, b, c): captures its parameters in a closure, writes and reads them through it
    m.functions.push((
        "capt3".into(),
        Function::default().with_arg("a").with_arg("b").with_arg("c").with_cards(vec![
            Card::set_var("own", Card::string_card("own local")),
            Card::set_var(
                "r",
                Card::dynamic_call(
                    c(CardBody::Closure(Box::new(Function::default().with_cards(vec![
                        Card::set_var("c", Card::read_var("a")),
                        Card::set_var("own", Card::read_var("b")),
                        Card::return_card(Card::read_var("c")),
                    ])))),
                    vec![],
                ),
            ),
            Card::return_card(Card::read_var("own")),
        ]),
    ));
    // deep(n): recursion n levels, each level keeps a local string alive
    m.functions.push((
        "deep".into(),
        Function::default().with_arg("n").with_cards(vec![
            Card::set_var("pad", Card::string_card("pad")),
            c(CardBody::IfTrue(bin(
                c(CardBody::Less(bin(Card::scalar_int(0), Card::read_var("n")))),
                Card::return_card(Card::call_function(
                    "deep",
                    vec![c(CardBody::Sub(bin(Card::read_var("n"), Card::scalar_int(1))))],
                )),
            ))),
            Card::return_card(Card::read_var("n")),
        ]),
    ));
    m
}

// ---------------------------------------------------------------------------------------------
// G-adversarial (compile half)

fn adv_name(rng: &mut Rng) -> String {
    match rng.below(16) {
        14 => "q7".into(),
        15 => "modq.q7".into(),
        0 => String::new(),
        1 => "super".into(),
        2 => "super.super.x".into(),
        3 => "a.b".into(),
        4 => ".".into(),
        5 => "main".into(),
        6 => "std".into(),
        7 => "std.map".into(),
        8 => "ünïcödé".into(),
        9 => "x".repeat(rng.usize(400)),
        10 => format!("v{}", rng.below(300)),
        11 => "a..b".into(),
        12 => "f".into(),
        _ => format!("n{}", rng.below(6)),
    }
}

fn adv_card(rng: &mut Rng, depth: usize) -> Card {
    if depth == 0 {
        return match rng.below(8) {
            0 => c(CardBody::ScalarNil),
            1 => Card::scalar_int(rng.next_u64() as i64),
            2 => Card::string_card(adv_name(rng)),
            3 => Card::read_var(adv_name(rng)),
            4 => c(CardBody::Function(adv_name(rng))),
            5 => c(CardBody::NativeFunction(adv_name(rng))),
            6 => c(CardBody::Abort),
            _ => c(CardBody::Comment(adv_name(rng))),
        };
    }
    let d = depth - 1;
    let nargs = rng.usize(4);
    match rng.below(26) {
        0 => c(CardBody::Add(bin(adv_card(rng, d), adv_card(rng, d)))),
        1 => c(CardBody::Not(un(adv_card(rng, d)))),
        2 => c(CardBody::Return(un(adv_card(rng, d)))),
        3 => Card::set_property(adv_card(rng, d), adv_card(rng, d), adv_card(rng, d)),
        4 => c(CardBody::GetProperty(bin(adv_card(rng, d), adv_card(rng, d)))),
        5 => Card::call_native(adv_name(rng), (0..nargs).map(|_| adv_card(rng, d)).collect::<Vec<_>>()),
        6 => c(CardBody::IfTrue(bin(adv_card(rng, d), adv_card(rng, d)))),
        7 => c(CardBody::IfFalse(bin(adv_card(rng, d), adv_card(rng, d)))),
        8 => c(CardBody::IfElse(Box::new([adv_card(rng, d), adv_card(rng, d), adv_card(rng, d)]))),
        9 => Card::call_function(adv_name(rng), (0..nargs).map(|_| adv_card(rng, d)).collect::<Vec<_>>()),
        10 => Card::set_global_var(adv_name(rng), adv_card(rng, d)),
        11 => Card::set_var(adv_name(rng), adv_card(rng, d)),
        12 => c(CardBody::Repeat(Box::new(Repeat {
            i: if rng.chance(1, 2) { Some(adv_name(rng)) } else { None },
            n: adv_card(rng, d),
            body: adv_card(rng, d),
        }))),
        13 => c(CardBody::While(Box::new([adv_card(rng, d), adv_card(rng, d)]))),
        14 => c(CardBody::ForEach(Box::new(ForEach {
            i: if rng.chance(1, 2) { Some(adv_name(rng)) } else { None },
            k: if rng.chance(1, 2) { Some(adv_name(rng)) } else { None },
            v: if rng.chance(1, 2) { Some(adv_name(rng)) } else { None },
            iterable: Box::new(adv_card(rng, d)),
            body: Box::new(adv_card(rng, d)),
        }))),
        15 => Card::composite_card(adv_name(rng), (0..nargs).map(|_| adv_card(rng, d)).collect()),
        16 => Card::dynamic_call(adv_card(rng, d), (0..nargs).map(|_| adv_card(rng, d)).collect::<Vec<_>>()),
        17 => c(CardBody::Get(bin(adv_card(rng, d), adv_card(rng, d)))),
        18 => c(CardBody::AppendTable(bin(adv_card(rng, d), adv_card(rng, d)))),
        19 => c(CardBody::PopTable(un(adv_card(rng, d)))),
        20 => c(CardBody::Array((0..nargs).map(|_| adv_card(rng, d)).collect())),
        21 => {
            let mut f = Function::default();
            for _ in 0..rng.usize(3) {
                f.arguments.push(adv_name(rng));
            }
            for _ in 0..rng.usize(3) {
                f.cards.push(adv_card(rng, d));
            }
            c(CardBody::Closure(Box::new(f)))
        }
        22 => c(CardBody::Len(un(adv_card(rng, d)))),
        23 => c(CardBody::Equals(bin(adv_card(rng, d), adv_card(rng, d)))),
        24 => c(CardBody::And(bin(adv_card(rng, d), adv_card(rng, d)))),
        _ => c(CardBody::Div(bin(adv_card(rng, d), adv_card(rng, d)))),
    }
}

/// a chain of unary cards `depth` levels deep (native-stack use of the recursive compiler)
fn deep_chain(rng: &mut Rng, depth: usize) -> Card {
    let mut cur = Card::scalar_int(1);
    for _ in 0..depth {
        cur = match rng.below(4) {
            0 => c(CardBody::Not(un(cur))),
            1 => c(CardBody::Len(un(cur))),
            2 => Card::composite_card("c", vec![cur]),
            _ => c(CardBody::Add(bin(cur, Card::scalar_int(1)))),
        };
    }
    cur
}

pub fn gen_adversarial(rng: &mut Rng) -> Module {
    // half of the modules have a valid outer structure (function / module names, imports) so
    // that compilation gets past the structural checks and into the card trees
    let tidy = rng.chance(1, 2);
    fn good_name(rng: &mut Rng) -> String {
        format!("{}{}", ["f", "g", "mod", "x_"][rng.usize(4)], rng.below(5))
    }
    fn module(rng: &mut Rng, depth: usize, tidy: bool) -> Module {
        let mut m = Module::default();
        let nf = rng.usize(4);
        for _ in 0..nf {
            let mut f = Function::default();
            for _ in 0..rng.usize(4) {
                f.arguments.push(adv_name(rng));
            }
            let nc = rng.usize(5);
            for _ in 0..nc {
                let d = rng.usize(4);
                f.cards.push(adv_card(rng, d));
            }
            let name = if tidy {
                let n = good_name(rng);
                if m.functions.iter().any(|(x, _)| x == &n) {
                    continue;
                }
                n
            } else if rng.chance(1, 3) {
                "main".to_string()
            } else {
                adv_name(rng)
            };
            m.functions.push((name, f));
        }
        for _ in 0..rng.usize(3) {
            if tidy {
                // the last four reach above the importing module, possibly above the root
                let imp = [
                    "std.map", "std.filter", "std.sorted", "std.min", "super.q7", "super.super.q7", "super.modq",
                    "super.super.super.modq.q7",
                ][rng.usize(8)]
                .to_string();
                if !m.imports.contains(&imp) {
                    m.imports.push(imp);
                }
            } else {
                m.imports.push(adv_name(rng));
            }
        }
        if depth > 0 {
            for _ in 0..rng.usize(3) {
                let name = if tidy { good_name(rng) } else { adv_name(rng) };
                if tidy && m.submodules.iter().any(|(x, _)| x == &name) {
                    continue;
                }
                let sub = module(rng, depth - 1, tidy);
                m.submodules.push((name, sub));
            }
        }
        m
    }
    let mut m = module(rng, 2, tidy);
    // make sure there is a main most of the time
    if rng.chance(4, 5) && !m.functions.iter().any(|(n, _)| n == "main") {
        let mut f = Function::default();
        match rng.below(8) {
            6 => {
                // calls through imports that climb with `super`
                f.cards.push(Card::set_global_var("a", Card::call_function("q7", vec![])));
                f.cards.push(Card::set_global_var("b", Card::call_function("modq.q7", vec![])));
                f.cards.push(Card::set_global_var("c", c(CardBody::Function("q7".into()))));
                let imp = ["super.q7", "super.super.q7", "super.modq", "super.super.modq"][rng.usize(4)].to_string();
                if !m.imports.contains(&imp) {
                    m.imports.push(imp);
                }
            }
            7 => {
                // a closure nested two deep whose inner function captures (nearly) all of the locals
                // of its parent and some of its grandparent
                let np = 240 + rng.usize(16);
                let ng = rng.usize(4);
                for i in 0..ng {
                    f.cards.push(Card::set_var(format!("g{i}"), Card::scalar_int(i as i64)));
                }
                let mut parent = Function::default();
                for i in 0..np {
                    parent.cards.push(Card::set_var(format!("l{i}"), Card::scalar_int(i as i64)));
                }
                let mut inner = Function::default();
                for i in 0..np {
                    inner.cards.push(Card::set_global_var("x", Card::read_var(format!("l{i}"))));
                }
                for i in 0..ng {
                    inner.cards.push(Card::set_global_var("y", Card::read_var(format!("g{i}"))));
                }
                parent.cards.push(Card::set_var("inner", c(CardBody::Closure(Box::new(inner)))));
                f.cards.push(Card::set_var("parent", c(CardBody::Closure(Box::new(parent)))));
            }
            0 => {
                // many globals
                for i in 0..(10 + rng.usize(60)) {
                    f.cards.push(Card::set_global_var(format!("g{i}"), Card::scalar_int(i as i64)));
                }
            }
            1 => {
                // many locals
                for i in 0..(200 + rng.usize(120)) {
                    f.cards.push(Card::set_var(format!("l{i}"), Card::scalar_int(i as i64)));
                }
            }
            2 => {
                // many captured variables
                let n = 200 + rng.usize(120);
                for i in 0..n.min(250) {
                    f.cards.push(Card::set_var(format!("l{i}"), Card::scalar_int(i as i64)));
                }
                let mut cf = Function::default();
                for i in 0..n {
                    cf.cards.push(Card::set_global_var("x", Card::read_var(format!("l{}", i % 250))));
                }
                f.cards.push(Card::set_var("f", c(CardBody::Closure(Box::new(cf)))));
            }
            3 => {
                let depth = 1 + rng.usize(60);
                f.cards.push(Card::set_global_var("deep", deep_chain(rng, depth)));
            }
            _ => {
                for _ in 0..(1 + rng.usize(4)) {
                    let d = rng.usize(5);
                    f.cards.push(adv_card(rng, d));
                }
            }
        }
        m.functions.insert(0, ("main".into(), f));
    }
    m
}
