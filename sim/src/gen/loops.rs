//! G-loop: programs with known-unbounded or long-running parts, nested through host re-entry and
//! the stdlib's native callbacks (the places where the instruction budget has to be shared).
use crate::kernel::Rng;
use cao_lang::compiler::{Card, CardBody, ForEach, Function, Module, Repeat};

fn c(b: CardBody) -> Card {
    b.into()
}
fn bin(a: Card, b: Card) -> Box<[Card; 2]> {
    Box::new([a, b])
}

/// a statement block that executes roughly `n` cheap instructions: repeat n { g = g + 1 }
fn busy(n: i64, tag: &str) -> Card {
    c(CardBody::Repeat(Box::new(Repeat {
        i: None,
        n: Card::scalar_int(n),
        body: Card::set_global_var(
            format!("cnt_{tag}"),
            c(CardBody::Add(bin(Card::read_var(format!("cnt_{tag}")), Card::scalar_int(1)))),
        ),
    })))
}

fn forever() -> Card {
    c(CardBody::While(Box::new([
        Card::scalar_int(1),
        Card::set_global_var("spin", c(CardBody::Add(bin(Card::read_var("spin"), Card::scalar_int(1))))),
    ])))
}

#[derive(Clone, Debug)]
pub struct LoopShape {
    /// how the nested work is reached at each level: 0 = host stub call0, 1 = std.sorted_by_key,
    /// 2 = std.min_by_key, 3 = plain script call, 4 = std.map (card based), 5 = the native
    /// function value call0 through a dynamic call, 6 = host stub try0 (swallows the callee's
    /// failure and returns nil), 7 = a for-each over the table whose body returns at the first
    /// row, 8 = std.any with a callback that is truthy at the first row (7 and 8: work that does
    /// not grow with the number of rows)
    pub via: Vec<u8>,
    /// the innermost level never terminates
    pub infinite: bool,
    /// busy work (iterations) before / inside each level
    pub work: Vec<i64>,
    /// number of table entries for the std functions
    pub entries: usize,
}

pub fn gen_shape(rng: &mut Rng) -> LoopShape {
    let depth = 1 + rng.usize(3);
    LoopShape {
        via: (0..depth).map(|_| rng.below(9) as u8).collect(),
        infinite: rng.chance(1, 3),
        work: (0..=depth).map(|_| rng.range(0, 12)).collect(),
        // sometimes far more rows than the rest of the program has instructions
        entries: if rng.chance(1, 4) { 40 + rng.usize(260) } else { 1 + rng.usize(4) },
    }
}

/// main -> level1 -> level2 ... each level does some busy work, then reaches the next level through
/// the chosen mechanism; the innermost level does busy work or spins forever.
pub fn gen_loop_program(shape: &LoopShape) -> Module {
    let depth = shape.via.len();
    let mut m = Module::default();
    let mut main = Function::default();
    main.cards.push(Card::set_global_var("spin", Card::scalar_int(0)));
    for i in 0..=depth {
        main.cards.push(Card::set_global_var(format!("cnt_l{i}"), Card::scalar_int(0)));
    }
    // a table for the std functions
    main.cards.push(Card::set_var("t", c(CardBody::CreateTable)));
    for e in 0..shape.entries {
        main.cards.push(c(CardBody::AppendTable(bin(Card::scalar_int(e as i64 * 3 % 7), Card::read_var("t")))));
    }
    main.cards.push(Card::set_global_var("tbl", Card::read_var("t")));
    main.cards.push(busy(shape.work[0], "l0"));
    let reach = |level: usize, via: u8| -> Card {
        let name = format!("level{level}");
        match via {
            0 => Card::call_native("call0", vec![c(CardBody::Function(format!("{name}_0")))]),
            1 => Card::call_function(
                "std.sorted_by_key",
                vec![c(CardBody::Function(format!("{name}_2"))), Card::read_var("tbl")],
            ),
            2 => Card::call_function(
                "std.min_by_key",
                vec![c(CardBody::Function(format!("{name}_2"))), Card::read_var("tbl")],
            ),
            3 => Card::call_function(format!("{name}_0"), vec![]),
            5 => Card::dynamic_call(
                c(CardBody::NativeFunction("call0".into())),
                vec![c(CardBody::Function(format!("{name}_0")))],
            ),
            6 => Card::call_native("try0", vec![c(CardBody::Function(format!("{name}_0")))]),
            7 => Card::call_function(format!("{name}_fe"), vec![]),
            8 => Card::call_function(
                "std.any",
                vec![c(CardBody::Function(format!("{name}_3t"))), Card::read_var("tbl")],
            ),
            _ => Card::call_function(
                "std.map",
                vec![c(CardBody::Function(format!("{name}_3"))), Card::read_var("tbl")],
            ),
        }
    };
    main.cards.push(Card::set_global_var("r0", reach(1, shape.via[0])));
    main.cards.push(busy(2, "l0"));
    m.functions.push(("main".into(), main));
    for level in 1..=depth {
        // the level's body
        let mut body: Vec<Card> = vec![busy(shape.work[level], &format!("l{level}"))];
        if level < depth {
            body.push(Card::set_global_var(format!("r{level}"), reach(level + 1, shape.via[level])));
        } else if shape.infinite {
            body.push(forever());
        }
        body.push(Card::return_card(Card::read_var(format!("cnt_l{level}"))));
        // the same body under three arities (0 for call0 / script call, 2 for key functions, 3 for map)
        for (suffix, args) in [("0", vec![]), ("2", vec!["k", "v"]), ("3", vec!["k", "v", "i"])] {
            let mut f = Function::default();
            for a in args {
                f.arguments.push(a.to_string());
            }
            f.cards = body.clone();
            m.functions.push((format!("level{level}_{suffix}"), f));
        }
        // the body reached from inside a loop over the table that is left at the first row
        let fe = Function::default().with_cards(vec![
            c(CardBody::ForEach(Box::new(ForEach {
                i: None,
                k: None,
                v: Some("row".into()),
                iterable: Box::new(Card::read_var("tbl")),
                body: Box::new(Card::return_card(Card::call_function(format!("level{level}_0"), vec![]))),
            }))),
            Card::return_card(c(CardBody::ScalarNil)),
        ]);
        m.functions.push((format!("level{level}_fe"), fe));
        // ... and as a callback of std.any that is truthy whatever the level counted
        let mut t3 = Function::default().with_arg("k").with_arg("v").with_arg("i");
        t3.cards = vec![
            Card::set_global_var(format!("any{level}"), Card::call_function(format!("level{level}_0"), vec![])),
            Card::return_card(Card::scalar_int(1)),
        ];
        m.functions.push((format!("level{level}_3t"), t3));
    }
    m
}
