pub mod program;
pub mod loops;
