pub mod program;
