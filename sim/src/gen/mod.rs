pub mod program;
pub mod loops;
pub mod churn;
