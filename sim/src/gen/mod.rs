pub mod program;
pub mod loops;
pub mod churn;
pub mod hostile;
