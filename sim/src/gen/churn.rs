//! Churn programs: bounded live set, unbounded garbage. Used by C05 (a program whose live data
//! stays bounded must be able to allocate indefinitely) and C17 (endurance).
use crate::kernel::Rng;
use cao_lang::compiler::{Card, CardBody, Function, Module, Repeat};

fn c(b: CardBody) -> Card {
    b.into()
}
fn bin(a: Card, b: Card) -> Box<[Card; 2]> {
    Box::new([a, b])
}

#[derive(Clone, Debug)]
pub struct ChurnShape {
    pub iterations: i64,
    /// kinds of garbage produced per iteration (0 string, 1 table with entries, 2 closure,
    /// 3 row object, 4 host-made table, 5 array literal, 6 std.map result)
    pub kinds: Vec<u8>,
    pub string_len: usize,
    /// number of entries kept alive in a global table (the bounded live set)
    pub live_entries: i64,
}

pub fn gen_churn_shape(rng: &mut Rng) -> ChurnShape {
    let nk = 1 + rng.usize(3);
    ChurnShape {
        iterations: match rng.below(4) {
            0 => rng.range(5, 40),
            1 => rng.range(40, 400),
            _ => rng.range(400, 2500),
        },
        kinds: (0..nk).map(|_| rng.below(7) as u8).collect(),
        string_len: 1 + rng.usize(120),
        live_entries: rng.range(0, 12),
    }
}

pub fn gen_churn_program(s: &ChurnShape) -> Module {
    let mut main = Function::default();
    // every third shape uses multi-byte characters (byte length and char count differ)
    let lit = if s.string_len % 3 == 2 { "xé語".repeat(s.string_len / 3 + 1) } else { "x".repeat(s.string_len) };
    main.cards.push(Card::set_var("keep", c(CardBody::CreateTable)));
    main.cards.push(Card::set_global_var("live", Card::read_var("keep")));
    main.cards.push(Card::set_var("junk", c(CardBody::ScalarNil)));
    main.cards.push(Card::set_var("slot", Card::scalar_int(0)));
    let mut body: Vec<Card> = vec![];
    for k in s.kinds.iter() {
        let st = match k {
            0 => Card::set_var("junk", Card::string_card(lit.clone())),
            1 => Card::composite_card(
                "tbl",
                vec![
                    Card::set_var("junk", c(CardBody::CreateTable)),
                    Card::set_property(Card::string_card(lit.clone()), Card::read_var("junk"), Card::string_card("a")),
                    Card::set_property(Card::read_var("i"), Card::read_var("junk"), Card::read_var("i")),
                ],
            ),
            2 => Card::set_var(
                "junk",
                c(CardBody::Closure(Box::new(
                    Function::default().with_card(Card::return_card(Card::read_var("keep"))),
                ))),
            ),
            3 => Card::set_var("junk", c(CardBody::Get(bin(Card::read_var("keep"), Card::scalar_int(0))))),
            4 => Card::set_var("junk", Card::call_native("mk_table", vec![Card::read_var("i")])),
            5 => Card::set_var(
                "junk",
                c(CardBody::Array(vec![Card::string_card(lit.clone()), Card::read_var("i"), c(CardBody::CreateTable)])),
            ),
            _ => Card::set_var(
                "junk",
                Card::call_function("std.map", vec![c(CardBody::Function("cb3".into())), Card::read_var("keep")]),
            ),
        };
        body.push(st);
    }
    // bounded live set: keep[i % live_entries] = fresh string
    if s.live_entries > 0 {
        body.push(Card::set_var("slot", c(CardBody::Add(bin(Card::read_var("slot"), Card::scalar_int(1))))));
        body.push(c(CardBody::IfTrue(bin(
            c(CardBody::LessOrEq(bin(Card::scalar_int(s.live_entries), Card::read_var("slot")))),
            Card::set_var("slot", Card::scalar_int(0)),
        ))));
        body.push(Card::set_property(Card::string_card(lit.clone()), Card::read_var("keep"), Card::read_var("slot")));
    }
    main.cards.push(c(CardBody::Repeat(Box::new(Repeat {
        i: Some("i".into()),
        n: Card::scalar_int(s.iterations),
        body: Card::composite_card("body", body),
    }))));
    main.cards.push(Card::set_global_var("result", c(CardBody::Len(cao_lang::compiler::UnaryExpression::new(Card::read_var("keep"))))));
    let mut m = Module::default();
    m.functions.push(("main".into(), main));
    m.functions.push((
        "cb3".into(),
        Function::default()
            .with_arg("k")
            .with_arg("v")
            .with_arg("i")
            .with_card(Card::return_card(Card::read_var("k"))),
    ));
    m
}
