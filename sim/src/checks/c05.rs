//! C05 - Memory limit is enforced and garbage is reclaimed.
//!
//! Workload: G-alloc and churn programs (bounded live set, unbounded garbage).
//! Fault / schedule space: the natural threshold schedule under limits L swept relative to the
//! program's footprint (the real `next_gc` logic is the subject), forced collections at seeded
//! points, fail-at-j allocation failures.
//! Oracles: the allocation ledger (per block: refund == charge; charge covers the block; accounted
//! <= limit after a successful allocation; a failed allocation leaves the counter unchanged;
//! accounted == 0 and no outstanding block after clear), reclamation (after a collection every
//! surviving object was possibly reachable before it), and legitimacy of OutOfMemory decided by a
//! schedule metamorphosis: if the same program completes under the same limit when a collection
//! runs at every allocation point, an OutOfMemory under the natural schedule was spurious.
use super::vmcommon::*;
use crate::ctl::vmctl::GcPlan;
use crate::ctl::vmrun::{innermost, run_program, RunOut};
use crate::gen::churn::{gen_churn_program, gen_churn_shape};
use crate::gen::program::{gen_program, GenCfg};
use crate::kernel::{prng, CaseCtx, Check, Tier};
use cao_lang::compiler::Module;
use cao_lang::prelude::*;
use serde_json::{json, Value as Json};

pub struct C05;

const BUDGET: u64 = 400_000;

const C05_KINDS: [&str; 10] = [
    "guard-never-released",
    "refund-mismatch",
    "charge-out-of-range",
    "accounted-above-limit",
    "failed-alloc-changed-counter",
    "release-of-unknown-block",
    "accounted-nonzero-after-clear",
    "clear-left-state",
    "garbage-not-reclaimed",
    "double-free-object",
];

fn run_sched(p: &CaoCompiledProgram, s: &Schedule) -> RunOut {
    run_program(p, &s.knobs, s.cfg(), s.host.clone())
}

fn sched(gc: GcPlan, quarantine: bool, limit: usize) -> Schedule {
    let mut s = Schedule::new(gc, quarantine);
    s.knobs.budget = BUDGET;
    s.knobs.mem_limit = limit;
    s
}

fn ledger_violations(out: &RunOut) -> Vec<(Json, String)> {
    out.findings
        .iter()
        .filter(|f| C05_KINDS.contains(&f.kind.as_str()))
        .map(|f| (f.sig.clone(), f.what.clone()))
        .collect()
}

/// all C05 violations of program `p` under schedule `s` (incl. the OOM metamorphosis)
fn violations_of(p: &CaoCompiledProgram, s: &Schedule, ctx: Option<&mut CaseCtx>) -> Vec<(Json, String)> {
    let out = run_sched(p, s);
    let mut v = ledger_violations(&out);
    let mut ctxo = ctx;
    if let Some(ctx) = ctxo.as_deref_mut() {
        ctx.evaluation();
        ctx.count("dispatches", out.counters.dispatches);
        ctx.count("allocations", out.counters.allocs);
        ctx.count("fault:collections_natural", out.counters.gcs - out.counters.gcs_forced.min(out.counters.gcs));
        ctx.count("fault:collections_forced", out.counters.gcs_forced);
        ctx.count("fault:alloc_fail_injected", out.counters.alloc_fail_injected);
        ctx.count("fault:alloc_fail_natural_limit", out.counters.alloc_fail_natural);
        ctx.count("objects_swept", out.counters.swept);
        ctx.max("collections_in_one_run", out.counters.gcs);
        ctx.max("allocations_in_one_run", out.counters.allocs);
        if out.counters.gcs >= 2 {
            ctx.count("probe:run_with_two_or_more_natural_collections", 1);
        }
    }
    if s.gc == GcPlan::Natural && !s.quarantine && out.panic.is_none() && innermost(&out.result) == "OutOfMemory" {
        if let Some(ctx) = ctxo.as_deref_mut() {
            ctx.count("probe:natural_oom_runs", 1);
        }
        // schedule metamorphosis: collect at every allocation point, same limit
        let mut s2 = s.clone();
        s2.gc = GcPlan::Every;
        let out2 = run_sched(p, &s2);
        if let Some(ctx) = ctxo.as_deref_mut() {
            ctx.evaluation();
            ctx.count("oom_metamorphosis_runs", 1);
        }
        if out2.panic.is_none() && innermost(&out2.result) != "OutOfMemory" {
            v.push((
                json!({"inv": "spurious-out-of-memory"}),
                format!(
                    "OutOfMemory under limit {} after {} collection(s) and {} allocations, but with a collection at every allocation point the same program ends with {} under the same limit (peak accounted {})",
                    s.knobs.mem_limit, out.counters.gcs, out.counters.allocs, out2.result, out2.counters.peak_allocated
                ),
            ));
        } else if let Some(ctx) = ctxo.as_deref_mut() {
            ctx.count("probe:legitimate_oom_confirmed", 1);
        }
    }
    v
}

fn gen_case(ctx: &CaseCtx) -> (Module, Json) {
    let mut wr = ctx.rng("workload");
    if wr.chance(1, 2) {
        let shape = gen_churn_shape(&mut wr);
        let d = json!({"kind": "churn", "iterations": shape.iterations, "kinds": shape.kinds, "string_len": shape.string_len, "live_entries": shape.live_entries});
        (gen_churn_program(&shape), d)
    } else {
        let cfg = GenCfg::swarm(&mut wr);
        (gen_program(&mut wr, &cfg), json!({"kind": "G-alloc"}))
    }
}

fn report(ctx: &mut CaseCtx, m: &Module, s: &Schedule, sig: Json, what: String) {
    if ctx.violations.iter().any(|v| v.sig == sig) {
        return;
    }
    ctx.violation(sig, what, json!({"module": module_json(m), "schedule": s.to_json(), "cards": count_cards(m)}));
}

impl Check for C05 {
    fn id(&self) -> &'static str {
        "C05"
    }
    fn level(&self) -> &'static str {
        "exploration"
    }
    fn rule(&self) -> String {
        "one case = one seeded program (churn: 5-2500 loop iterations producing strings / tables / closures / rows / host-made \
         tables / array literals / std.map results as garbage around a bounded live set; or G-alloc). M = peak accounted \
         memory when a collection runs at every allocation point. It is then run with real frees under the natural threshold \
         schedule for limits L in {M, M+64, 1.25M, 1.5M, 2M, 3M, 4M, 8M, default} and seeded L, under forced collections at \
         seeded points, with every k-th allocation failing once (fail-at-j for seeded j), and in quarantine mode (reclamation \
         audit) with a collection at every allocation, every 7th, and few large ones (every (A/3)-th allocation, one at the last). \
         Programs that run into their budget or allocate more than 60000 times are discarded after a cheap dry run. A run is non-trivial if at least one collection ran or an allocation failed; distinct = distinct \
         (program hash, schedule hash)."
            .to_string()
    }
    fn cases(&self, tier: Tier) -> u64 {
        match tier {
            Tier::Quick => 1500,
            Tier::Thorough => 20_000,
        }
    }
    fn run_case(&self, ctx: &mut CaseCtx) {
        let (module, desc) = gen_case(ctx);
        let Compiled::Ok(p) = compile_module(&module) else {
            ctx.count("discarded_compile", 1);
            return;
        };
        let phash = crate::kernel::stable_hash_json(&module_json(&module));
        // a cheap look first (natural schedule, ample limit): a program that runs into its budget
        // or allocates tens of thousands of times costs minutes with a collection at every
        // allocation and is discarded anyway / tells nothing new
        ctx.progress("run dry");
        let dry = run_sched(&p, &sched(GcPlan::Natural, false, 64 << 20));
        ctx.evaluation();
        if dry.panic.is_some() || dry.aborted {
            ctx.count("discarded_baseline_crash", 1);
            return;
        }
        if crate::ctl::vmrun::innermost(&dry.result) == "Timeout" {
            ctx.count("discarded_baseline_timeout", 1);
            return;
        }
        if dry.counters.allocs > 60_000 {
            ctx.count("discarded_too_many_allocation_points", 1);
            return;
        }
        // footprint under the tightest schedule, ample limit, real frees
        ctx.progress("run every");
        let every = sched(GcPlan::Every, false, 64 << 20);
        let base = run_sched(&p, &every);
        ctx.evaluation();
        if base.panic.is_some() || base.aborted {
            ctx.count("discarded_baseline_crash", 1);
            return;
        }
        if base.result == "Timeout" {
            ctx.count("discarded_baseline_timeout", 1);
            return;
        }
        let m_peak = base.counters.peak_allocated.max(256);
        ctx.max("footprint_bytes", m_peak as u64);
        if ctx.case < 3 {
            ctx.sample = Some(json!({"workload": desc, "module": module_json(&module), "footprint_M": m_peak,
                "allocations": base.counters.allocs, "limits": "M, M+64, 1.25M, 1.5M, 2M, 3M, 4M, 8M, 400KiB, seeded"}));
        }
        for (sig, what) in ledger_violations(&base) {
            report(ctx, &module, &every, sig, what);
        }
        let mut sr = ctx.rng("schedule");
        let mut schedules: Vec<Schedule> = vec![];
        for l in [m_peak, m_peak + 64, m_peak * 5 / 4, m_peak * 3 / 2, m_peak * 2, m_peak * 3, m_peak * 4, m_peak * 8, 400 * 1024] {
            schedules.push(sched(GcPlan::Natural, false, l));
        }
        for _ in 0..3 {
            let l = m_peak / 2 + sr.usize(m_peak * 6);
            schedules.push(sched(GcPlan::Natural, false, l));
        }
        // the same limits configured on a VM that already exists (created with another limit, then
        // RuntimeData::set_memory_limit): the threshold logic starts from whatever that left behind
        for l in [m_peak, m_peak * 3 / 2, m_peak * 3, m_peak * 8] {
            let mut s = sched(GcPlan::Natural, false, l);
            s.knobs.limit_from = Some(*sr.pick(&[400 * 1024usize, l * 16, l / 4 + 64, 1 << 24]));
            schedules.push(s);
        }
        // forced collections at seeded points, real frees
        let a = base.counters.allocs.max(1);
        for _ in 0..2 {
            let k = 2 + sr.below(40);
            schedules.push(sched(GcPlan::EveryKth(k, sr.below(k)), false, 64 << 20));
        }
        // allocation failures
        let nfail = match ctx.tier {
            Tier::Quick => 6,
            Tier::Thorough => 24,
        };
        for _ in 0..nfail {
            let mut s = sched(GcPlan::Natural, false, m_peak * 4);
            s.fail_alloc = Some(sr.below(a));
            schedules.push(s);
        }
        // reclamation audit (quarantine)
        schedules.push(sched(GcPlan::Every, true, 64 << 20));
        schedules.push(sched(GcPlan::EveryKth(7, 3), true, 64 << 20));
        // few, large collections: each has thousands of objects to sweep at once
        if a > 600 {
            let k = (a / 3).max(300);
            schedules.push(sched(GcPlan::EveryKth(k, k - 1), true, 64 << 20));
            schedules.push(sched(GcPlan::At([a - 1].into_iter().collect()), true, 64 << 20));
        }
        for (i, s) in schedules.iter().enumerate() {
            ctx.progress(&format!("run sched {i}"));
            let before_gc = ctx.stats.get("fault:collections_natural").copied().unwrap_or(0)
                + ctx.stats.get("fault:collections_forced").copied().unwrap_or(0)
                + ctx.stats.get("fault:alloc_fail_injected").copied().unwrap_or(0)
                + ctx.stats.get("fault:alloc_fail_natural_limit").copied().unwrap_or(0);
            let vs = violations_of(&p, s, Some(ctx));
            let after_gc = ctx.stats.get("fault:collections_natural").copied().unwrap_or(0)
                + ctx.stats.get("fault:collections_forced").copied().unwrap_or(0)
                + ctx.stats.get("fault:alloc_fail_injected").copied().unwrap_or(0)
                + ctx.stats.get("fault:alloc_fail_natural_limit").copied().unwrap_or(0);
            if after_gc > before_gc {
                ctx.nontrivial(prng::mix(&[phash, s.hash()]));
            }
            for (sig, what) in vs {
                report(ctx, &module, s, sig, what);
            }
        }
    }
    fn replay(&self, replay: &Json, ctx: &mut CaseCtx) {
        let Some(m) = replay.get("module").and_then(module_from_json) else { return };
        let Some(s) = replay.get("schedule").and_then(Schedule::from_json) else { return };
        let Compiled::Ok(p) = compile_module(&m) else { return };
        ctx.progress("run replay");
        for (sig, what) in violations_of(&p, &s, Some(ctx)) {
            if !ctx.violations.iter().any(|v| v.sig == sig) {
                ctx.violation(sig, what, replay.clone());
            }
        }
    }
    fn minimise(&self, replay: &Json, sig: &Json) -> Json {
        let Some(m) = replay.get("module").and_then(module_from_json) else { return replay.clone() };
        let Some(s) = replay.get("schedule").and_then(Schedule::from_json) else { return replay.clone() };
        let mm = shrink_module(&m, 80, |cand| {
            let Compiled::Ok(p) = compile_module(cand) else { return false };
            violations_of(&p, &s, None).iter().any(|(x, _)| x == sig)
        });
        json!({"module": module_json(&mm), "schedule": s.to_json(), "cards": count_cards(&mm)})
    }
    fn assumptions(&self) -> Vec<String> {
        vec![
            "the unit the allocator charges is not prescribed: only consistency is checked (refund == charge per block, size <= charge <= size + 2*align + 16)".into(),
            "OutOfMemory is judged spurious only when the same program completes under the same limit with a collection at every allocation point (a schedule under which accounted memory over-approximates reachable + request), so no growth policy or constant factor is assumed".into(),
            "'possibly reachable' for the reclamation audit = roots of C02 plus arguments of running host functions".into(),
        ]
    }
    fn components(&self) -> Json {
        json!({"real": ["CaoLangAllocator (limit, threshold, accounting)", "collector", "strings / tables / hash map storage", "compiler", "VM"],
               "stub": ["host natives (simulated host)"]})
    }
    fn asan_flavour_share(&self) -> bool {
        true
    }
    fn required_probes(&self, _tier: Tier) -> Vec<String> {
        vec![
            "fault:collections_natural".into(),
            "fault:alloc_fail_injected".into(),
            "probe:run_with_two_or_more_natural_collections".into(),
            "probe:natural_oom_runs".into(),
        ]
    }
    fn watchdog_s(&self, _tier: Tier) -> u64 {
        90
    }
}
