//! C09 - Standard-library functions meet their contracts.
//!
//! Each case fixes a table, a library function and a callback drawn from a small family that is
//! given twice: as cards and as a Rust function over owned values (so no general interpreter is
//! needed as oracle). Simulator dimension (S4, S1, S3): the native-backed functions run script
//! callbacks through run_function while holding references into the input table; every case runs
//! fault-free, with a collection at every allocation point (quarantine audits) and at seeded single
//! points, and with a budget that expires inside the k-th callback.
use super::vmcommon::*;
use crate::ctl::obs::Obs;
use crate::ctl::vmctl::GcPlan;
use crate::ctl::vmrun::{innermost, run_program, RunOut};
use crate::kernel::{prng, CaseCtx, Check, Rng, Tier};
use cao_lang::compiler::{Card, CardBody, Function, Module, UnaryExpression};
use cao_lang::prelude::*;
use serde::{Deserialize, Serialize};
use serde_json::{json, Value as Json};
use std::cmp::Ordering;

pub struct C09;

#[derive(Clone, Debug, Serialize, Deserialize, PartialEq)]
pub enum V {
    Nil,
    Int(i64),
    Real(f64),
    Str(String),
    /// fresh table literal of small ints
    Tab(Vec<i64>),
}

impl V {
    fn card(&self) -> Card {
        match self {
            V::Nil => CardBody::ScalarNil.into(),
            V::Int(i) => Card::scalar_int(*i),
            V::Real(f) => CardBody::ScalarFloat(*f).into(),
            V::Str(s) => Card::string_card(s.clone()),
            V::Tab(_) => unreachable!("tables are built by statements"),
        }
    }
    fn obs(&self) -> Obs {
        match self {
            V::Nil => Obs::Nil,
            V::Int(i) => Obs::Int(*i),
            V::Real(f) => Obs::Real(f.to_bits()),
            V::Str(s) => Obs::Str(s.clone()),
            V::Tab(v) => Obs::Table(v.iter().enumerate().map(|(i, x)| (Obs::Int(i as i64), Obs::Int(*x))).collect(), 0),
        }
    }
}

#[derive(Clone, Copy, Debug, Serialize, Deserialize, PartialEq)]
pub enum Fun {
    Filter,
    Map,
    Any,
    Min,
    Max,
    MinByKey,
    MaxByKey,
    Sorted,
    SortedByKey,
    ToArray,
}

/// callbacks for filter / map / any: declared (k, v, i)
#[derive(Clone, Debug, Serialize, Deserialize, PartialEq)]
pub enum Cb {
    /// v < c
    ValLt(i64),
    /// i < c
    IdxLt(i64),
    /// len(v)
    LenV,
    Ident,
    Const(i64),
    /// allocates garbage, returns a fresh table [v]
    AllocWrap,
    /// closure: counter = counter + 1; return counter
    Counter,
    /// returns k
    Key,
    /// std.sorted(v) (v is a table)
    NestedSorted,
    /// a function value (script function / native function / closure, by the number modulo 3) if
    /// i < c, else nil: function values are truthy (filter / any only)
    FuncIfIdxLt(i64),
}

/// key functions for *_by_key: declared (key, value)
#[derive(Clone, Debug, Serialize, Deserialize, PartialEq)]
pub enum KeyFn {
    Value,
    /// 0 - value
    Neg,
    LenValue,
    Const,
    /// allocates a garbage string, returns value
    AllocValue,
    /// builds a fresh string of length value (via mk_str) and returns it: compared by length
    FreshStrOfLen,
    /// closure: counter = counter + 1; return 0 - counter (reverses)
    NegCounter,
}

#[derive(Clone, Debug, Serialize, Deserialize)]
pub struct Case {
    pub fun: Fun,
    pub entries: Vec<(V, V)>,
    /// build the table with append (keys 0..n) instead of explicit keys
    pub as_array: bool,
    pub cb: Option<Cb>,
    pub keyfn: Option<KeyFn>,
    /// call with this non-table input instead of the table
    pub non_table: Option<V>,
    /// declare callbacks with fewer parameters than the library pushes (as the repo's tests do)
    pub short_params: bool,
    /// the program defines root functions named like the library's own helpers (decoys that would
    /// change every result if the library bound to them); the compiler may refuse such a program
    #[serde(default)]
    pub decoys: bool,
    /// 0: the library call is made from `main`. d > 0: from a function `work(wa, wb)` reached
    /// through d-1 intermediate calls with arguments and locals, above padding locals of main, so
    /// that the table, the counter the callbacks capture and the callback closures themselves
    /// live in a frame that does not start at the bottom of the value stack (at most 60 rows: every
    /// nested-table row costs two stack slots of the frame that builds the table)
    #[serde(default)]
    pub depth: u8,
}

fn c(b: CardBody) -> Card {
    b.into()
}
fn bin(a: Card, b: Card) -> Box<[Card; 2]> {
    Box::new([a, b])
}
fn un(a: Card) -> UnaryExpression {
    UnaryExpression::new(a)
}

fn truthy(o: &Obs) -> bool {
    match o {
        Obs::Nil => false,
        Obs::Int(i) => *i != 0,
        Obs::Real(b) => f64::from_bits(*b) != 0.0,
        Obs::Str(s) => !s.is_empty(),
        Obs::Table(e, _) => !e.is_empty(),
        _ => true,
    }
}

fn num(o: &Obs) -> Option<f64> {
    match o {
        Obs::Int(i) => Some(*i as f64),
        Obs::Real(b) => Some(f64::from_bits(*b)),
        Obs::Nil => Some(0.0),
        // compared with a number, a string or table counts as its length
        Obs::Str(s) => Some(s.len() as f64),
        Obs::Table(e, _) => Some(e.len() as f64),
        _ => None,
    }
}

/// the language's comparison, restricted to the classes the generator uses
fn cmp(a: &Obs, b: &Obs) -> Option<Ordering> {
    match (a, b) {
        (Obs::Int(x), Obs::Int(y)) => Some(x.cmp(y)),
        (Obs::Table(x, _), Obs::Table(y, _)) => {
            if x == y {
                Some(Ordering::Equal)
            } else if x.len() != y.len() {
                Some(x.len().cmp(&y.len()))
            } else {
                None
            }
        }
        (Obs::Str(_), Obs::Table(..)) | (Obs::Table(..), Obs::Str(_)) => None,
        (Obs::Str(x), Obs::Str(y)) => {
            if x == y {
                Some(Ordering::Equal)
            } else if x.len() != y.len() {
                Some(x.len().cmp(&y.len()))
            } else {
                None
            }
        }
        _ => match (num(a), num(b)) {
            (Some(x), Some(y)) => x.partial_cmp(&y),
            _ => None,
        },
    }
}

fn lt(a: &Obs, b: &Obs) -> bool {
    cmp(a, b) == Some(Ordering::Less)
}
fn gt(a: &Obs, b: &Obs) -> bool {
    cmp(a, b) == Some(Ordering::Greater)
}

fn len_of(o: &Obs) -> i64 {
    match o {
        Obs::Nil => 0,
        Obs::Int(_) | Obs::Real(_) => 1,
        Obs::Str(s) => s.len() as i64,
        Obs::Table(e, _) => e.len() as i64,
        _ => 0,
    }
}

fn sorted_spec(entries: &[(Obs, Obs)], keys: &[Obs]) -> Vec<(Obs, Obs)> {
    let mut idx: Vec<usize> = (0..entries.len()).collect();
    // stable insertion sort by the language's comparison (incomparable = equal)
    idx.sort_by(|a, b| cmp(&keys[*a], &keys[*b]).unwrap_or(Ordering::Equal));
    idx.into_iter().map(|i| entries[i].clone()).collect()
}

impl Cb {
    fn apply(&self, k: &Obs, v: &Obs, i: i64, counter: &mut i64) -> Obs {
        match self {
            Cb::ValLt(cst) => Obs::Int(lt(v, &Obs::Int(*cst)) as i64),
            Cb::IdxLt(cst) => Obs::Int((i < *cst) as i64),
            Cb::LenV => Obs::Int(len_of(v)),
            Cb::Ident => v.clone(),
            Cb::Const(cst) => Obs::Int(*cst),
            Cb::AllocWrap => Obs::Table(vec![(Obs::Int(0), v.clone())], 0),
            Cb::Counter => {
                *counter += 1;
                Obs::Int(*counter)
            }
            Cb::Key => k.clone(),
            // only the truthiness matters where this one is used
            Cb::FuncIfIdxLt(cst) => {
                if i < *cst {
                    Obs::Int(1)
                } else {
                    Obs::Nil
                }
            }
            Cb::NestedSorted => match v {
                Obs::Table(e, _) => {
                    let keys: Vec<Obs> = e.iter().map(|(_, v)| v.clone()).collect();
                    Obs::Table(sorted_spec(e, &keys), 0)
                }
                other => other.clone(),
            },
        }
    }
    fn function(&self, short: bool) -> Card {
        // declared (k, v, i): first declared = last pushed
        let mut f = Function::default();
        let params: &[&str] = if short {
            match self {
                Cb::IdxLt(_) | Cb::FuncIfIdxLt(_) => &["k", "v", "i"],
                Cb::Key | Cb::Const(_) | Cb::Counter => &["k"],
                _ => &["k", "v"],
            }
        } else {
            &["k", "v", "i"]
        };
        for p in params {
            f = f.with_arg(p);
        }
        let body: Vec<Card> = match self {
            Cb::ValLt(cst) => vec![Card::return_card(c(CardBody::Less(bin(Card::read_var("v"), Card::scalar_int(*cst)))))],
            Cb::IdxLt(cst) => vec![Card::return_card(c(CardBody::Less(bin(Card::read_var("i"), Card::scalar_int(*cst)))))],
            Cb::LenV => vec![Card::return_card(c(CardBody::Len(un(Card::read_var("v")))))],
            Cb::Ident => vec![Card::return_card(Card::read_var("v"))],
            Cb::Const(cst) => vec![Card::return_card(Card::scalar_int(*cst))],
            Cb::AllocWrap => vec![
                Card::set_var("garbage", Card::string_card("some garbage string that is dropped")),
                Card::set_var("w", c(CardBody::CreateTable)),
                c(CardBody::AppendTable(bin(Card::read_var("v"), Card::read_var("w")))),
                Card::return_card(Card::read_var("w")),
            ],
            Cb::Counter => vec![
                Card::set_var("counter", c(CardBody::Add(bin(Card::read_var("counter"), Card::scalar_int(1))))),
                Card::return_card(Card::read_var("counter")),
            ],
            Cb::Key => vec![Card::return_card(Card::read_var("k"))],
            Cb::FuncIfIdxLt(cst) => vec![
                c(CardBody::IfTrue(bin(
                    c(CardBody::Less(bin(Card::read_var("i"), Card::scalar_int(*cst)))),
                    Card::return_card(match cst.rem_euclid(3) {
                        0 => c(CardBody::Function("std.sorted".into())),
                        1 => c(CardBody::NativeFunction("id".into())),
                        _ => c(CardBody::Closure(Box::new(Function::default().with_card(Card::return_card(Card::scalar_int(1)))))),
                    }),
                ))),
                Card::return_card(c(CardBody::ScalarNil)),
            ],
            Cb::NestedSorted => vec![Card::return_card(Card::call_function("std.sorted", vec![Card::read_var("v")]))],
        };
        f.cards = body;
        c(CardBody::Closure(Box::new(f)))
    }
}

impl KeyFn {
    fn apply(&self, _k: &Obs, v: &Obs, counter: &mut i64) -> Obs {
        match self {
            KeyFn::Value | KeyFn::AllocValue => v.clone(),
            KeyFn::Neg => match v {
                Obs::Int(i) => Obs::Int(0i64.wrapping_sub(*i)),
                Obs::Real(b) => Obs::Real((0.0 - f64::from_bits(*b)).to_bits()),
                _ => Obs::Nil,
            },
            KeyFn::LenValue => Obs::Int(len_of(v)),
            KeyFn::Const => Obs::Int(7),
            KeyFn::FreshStrOfLen => match v {
                Obs::Int(i) => Obs::Str("x".repeat(i.rem_euclid(40) as usize)),
                _ => Obs::Str("xxx".into()),
            },
            KeyFn::NegCounter => {
                *counter += 1;
                Obs::Int(-*counter)
            }
        }
    }
    fn function(&self, short: bool) -> Card {
        let mut f = Function::default().with_arg("key");
        if !(short && matches!(self, KeyFn::Const | KeyFn::NegCounter)) {
            f = f.with_arg("value");
        }
        f.cards = match self {
            KeyFn::Value => vec![Card::return_card(Card::read_var("value"))],
            KeyFn::Neg => vec![Card::return_card(c(CardBody::Sub(bin(Card::scalar_int(0), Card::read_var("value")))))],
            KeyFn::LenValue => vec![Card::return_card(c(CardBody::Len(un(Card::read_var("value")))))],
            KeyFn::Const => vec![Card::return_card(Card::scalar_int(7))],
            KeyFn::AllocValue => vec![
                Card::set_var("garbage", Card::string_card("garbage made by the key function")),
                Card::set_var("g2", c(CardBody::CreateTable)),
                Card::return_card(Card::read_var("value")),
            ],
            KeyFn::FreshStrOfLen => vec![Card::return_card(Card::call_native("mk_str", vec![Card::read_var("value")]))],
            KeyFn::NegCounter => vec![
                Card::set_var("counter", c(CardBody::Add(bin(Card::read_var("counter"), Card::scalar_int(1))))),
                Card::return_card(c(CardBody::Sub(bin(Card::scalar_int(0), Card::read_var("counter"))))),
            ],
        };
        c(CardBody::Closure(Box::new(f)))
    }
}

fn gen_case(rng: &mut Rng) -> Case {
    let fun = *rng.pick(&[
        Fun::Filter, Fun::Map, Fun::Any, Fun::Min, Fun::Max, Fun::MinByKey, Fun::MaxByKey, Fun::Sorted, Fun::SortedByKey, Fun::ToArray,
    ]);
    let ordering = matches!(fun, Fun::Min | Fun::Max | Fun::MinByKey | Fun::MaxByKey | Fun::Sorted | Fun::SortedByKey);
    // more than 20 rows: std's sort algorithms switch strategy there (insertion sort below)
    let n = match rng.below(7) {
        0 => 0,
        1 => 1,
        6 => 21 + rng.usize(70),
        _ => rng.usize(21),
    };
    // value class
    let vclass = if ordering { rng.below(3) } else { rng.below(5) };
    let mut entries = vec![];
    let as_array = rng.chance(1, 3);
    let kmode = rng.below(3);
    for i in 0..n {
        let key = if as_array {
            V::Int(i as i64)
        } else {
            match kmode {
                0 => V::Int(i as i64 * 7 % 23 + (i as i64 / 23) * 100),
                1 => V::Str(format!("k{i}")),
                _ => {
                    if i % 2 == 0 {
                        V::Int(i as i64 + 50)
                    } else {
                        V::Str(format!("key-{i}"))
                    }
                }
            }
        };
        let val = match vclass {
            0 => V::Int(rng.range(-4, 6)),
            1 => {
                if rng.chance(1, 2) {
                    V::Int(rng.range(-3, 3))
                } else {
                    // zeros of both signs are equal: ties
                    V::Real(*rng.pick(&[-2.5f64, -1.0, 0.0, -0.0, 0.5, 1.0, 2.0, 2.5]))
                }
            }
            2 => {
                // strings: equal or of different length
                let l = rng.usize(6);
                V::Str("abcdefgh"[..l].to_string())
            }
            3 => match rng.below(4) {
                0 => V::Nil,
                1 => V::Int(rng.range(-2, 2)),
                2 => V::Str(format!("s{}", rng.below(5))),
                _ => V::Tab((0..rng.usize(4)).map(|_| rng.range(0, 9)).collect()),
            },
            _ => V::Tab((0..rng.usize(5)).map(|_| rng.range(0, 9)).collect()),
        };
        entries.push((key, val));
    }
    let all_tables = !entries.is_empty() && entries.iter().all(|(_, v)| matches!(v, V::Tab(_)));
    let cb = match fun {
        Fun::Filter | Fun::Any if rng.chance(1, 10) => Some(Cb::FuncIfIdxLt(rng.range(0, 8))),
        Fun::Filter | Fun::Map | Fun::Any => Some(match rng.below(if all_tables { 10 } else { 9 }) {
            0 => Cb::ValLt(rng.range(-2, 4)),
            1 => Cb::IdxLt(rng.range(0, 8)),
            2 => Cb::LenV,
            3 => Cb::Ident,
            4 => Cb::Const(rng.range(0, 1)),
            5 => Cb::AllocWrap,
            6 => Cb::Counter,
            7 => Cb::Key,
            8 => Cb::Const(rng.range(-1, 2)),
            _ => Cb::NestedSorted,
        }),
        _ => None,
    };
    let ints_only = entries.iter().all(|(_, v)| matches!(v, V::Int(_)));
    let keyfn = match fun {
        Fun::MinByKey | Fun::MaxByKey | Fun::SortedByKey => Some(match rng.below(if ints_only { 7 } else { 5 }) {
            0 => KeyFn::Value,
            1 => KeyFn::LenValue,
            2 => KeyFn::Const,
            3 => KeyFn::AllocValue,
            4 => KeyFn::NegCounter,
            5 => KeyFn::Neg,
            _ => KeyFn::FreshStrOfLen,
        }),
        _ => None,
    };
    let non_table = if !matches!(fun, Fun::Filter | Fun::Map | Fun::Any) && rng.chance(1, 10) {
        Some(match rng.below(4) {
            0 => V::Nil,
            1 => V::Int(rng.range(-5, 5)),
            2 => V::Real(1.5),
            _ => V::Str("not a table".into()),
        })
    } else {
        None
    };
    // Neg on reals is fine, on strings not comparable: keep Neg for numeric values only
    Case { fun, entries, as_array, cb, keyfn, non_table, short_params: rng.chance(1, 5) && n <= 6, decoys: rng.chance(1, 12), depth: if rng.chance(1, 3) && n <= 60 { 1 + rng.below(3) as u8 } else { 0 } }
}

fn build(case: &Case) -> Module {
    let mut main = Function::default();
    main.cards.push(Card::set_var("counter", Card::scalar_int(0)));
    main.cards.push(Card::set_var("t", c(CardBody::CreateTable)));
    for (i, (k, v)) in case.entries.iter().enumerate() {
        let vcard = match v {
            V::Tab(items) => {
                // build the nested table in a local first
                let name = format!("n{i}");
                main.cards.push(Card::set_var(name.clone(), c(CardBody::Array(items.iter().map(|x| Card::scalar_int(*x)).collect()))));
                Card::read_var(name)
            }
            other => other.card(),
        };
        if case.as_array {
            main.cards.push(c(CardBody::AppendTable(bin(vcard, Card::read_var("t")))));
        } else {
            main.cards.push(Card::set_property(vcard, Card::read_var("t"), k.card()));
        }
    }
    main.cards.push(Card::set_global_var("g_in", Card::read_var("t")));
    let input = match &case.non_table {
        Some(v) => v.card(),
        None => Card::read_var("t"),
    };
    let short = case.short_params;
    let call = match case.fun {
        Fun::Filter => Card::call_function("std.filter", vec![case.cb.as_ref().unwrap().function(short), input]),
        Fun::Map => Card::call_function("std.map", vec![case.cb.as_ref().unwrap().function(short), input]),
        Fun::Any => Card::call_function("std.any", vec![case.cb.as_ref().unwrap().function(short), input]),
        Fun::Min => Card::call_function("std.min", vec![input]),
        Fun::Max => Card::call_function("std.max", vec![input]),
        Fun::Sorted => Card::call_function("std.sorted", vec![input]),
        Fun::ToArray => Card::call_function("std.to_array", vec![input]),
        Fun::MinByKey => Card::call_function("std.min_by_key", vec![case.keyfn.as_ref().unwrap().function(short), input]),
        Fun::MaxByKey => Card::call_function("std.max_by_key", vec![case.keyfn.as_ref().unwrap().function(short), input]),
        Fun::SortedByKey => Card::call_function("std.sorted_by_key", vec![case.keyfn.as_ref().unwrap().function(short), input]),
    };
    main.cards.push(Card::set_global_var("g_out", call));
    // the counting callbacks / key functions count in a captured local of main
    main.cards.push(Card::set_global_var("g_calls", Card::read_var("counter")));
    main.cards.push(Card::set_global_var("g_done", Card::scalar_int(1)));
    let mut m = Module::default();
    if case.depth == 0 {
        m.functions.push(("main".into(), main));
    } else {
        // the same cards as the body of work(wa, wb); main pads its frame and calls down to it
        let mut work = Function::default().with_arg("wa").with_arg("wb");
        work.cards = main.cards;
        work.cards.push(Card::return_card(Card::read_var("wa")));
        let mut real_main = Function::default();
        for i in 0..(2 + case.depth as usize) {
            real_main.cards.push(Card::set_var(format!("pad{i}"), Card::scalar_int(100 + i as i64)));
        }
        let inner_call = |x: Card| Card::call_function("work", vec![Card::string_card("second argument"), x]);
        if case.depth == 1 {
            real_main.cards.push(Card::set_global_var("g_ret", inner_call(Card::scalar_int(1))));
        } else {
            real_main.cards.push(Card::set_global_var("g_ret", Card::call_function(format!("lvl{}", case.depth - 2), vec![Card::scalar_int(1)])));
        }
        m.functions.push(("main".into(), real_main));
        for d in 0..(case.depth as usize).saturating_sub(1) {
            let mut f = Function::default().with_arg("x");
            f.cards.push(Card::set_var("local", c(CardBody::Add(bin(Card::read_var("x"), Card::scalar_int(1))))));
            f.cards.push(Card::set_var("s", Card::string_card("a local string of an intermediate frame")));
            if d == 0 {
                f.cards.push(Card::return_card(inner_call(Card::read_var("local"))));
            } else {
                f.cards.push(Card::return_card(Card::call_function(format!("lvl{}", d - 1), vec![Card::read_var("local")])));
            }
            m.functions.push((format!("lvl{d}"), f));
        }
        m.functions.push(("work".into(), work));
    }
    if case.decoys {
        for name in ["row_to_value", "sorted_by_key", "min_by_key", "filter"] {
            m.functions.push((
                name.into(),
                Function::default().with_arg("a").with_arg("b").with_card(Card::return_card(c(CardBody::Sub(bin(Card::scalar_int(0), Card::read_var("b")))))),
            ));
        }
    }
    m
}

fn row(k: &Obs, v: &Obs) -> Obs {
    Obs::Table(vec![(Obs::Str("key".into()), k.clone()), (Obs::Str("value".into()), v.clone())], 0)
}

/// the executable specification: (input afterwards, result)
fn expected(case: &Case) -> (Obs, Obs) {
    let (a, b, _) = expected_with_calls(case);
    (a, b)
}

/// ... and how often the callback / key function has been called (once per row, in order; `any`
/// stops at the first hit)
fn expected_with_calls(case: &Case) -> (Obs, Obs, i64) {
    let entries: Vec<(Obs, Obs)> = case.entries.iter().map(|(k, v)| (k.obs(), v.obs())).collect();
    let input = Obs::Table(entries.clone(), 0);
    if let Some(nt) = &case.non_table {
        return (input, nt.obs(), 0);
    }
    let mut counter = 0i64;
    let out = match case.fun {
        Fun::Filter => {
            let cb = case.cb.as_ref().unwrap();
            Obs::Table(
                entries.iter().enumerate().filter(|(i, (k, v))| truthy(&cb.apply(k, v, *i as i64, &mut counter))).map(|(_, e)| e.clone()).collect(),
                0,
            )
        }
        Fun::Map => {
            let cb = case.cb.as_ref().unwrap();
            Obs::Table(entries.iter().enumerate().map(|(i, (k, v))| (k.clone(), cb.apply(k, v, i as i64, &mut counter))).collect(), 0)
        }
        Fun::Any => {
            let cb = case.cb.as_ref().unwrap();
            let mut r = Obs::Nil;
            for (i, (k, v)) in entries.iter().enumerate() {
                if truthy(&cb.apply(k, v, i as i64, &mut counter)) {
                    r = k.clone();
                    break;
                }
            }
            r
        }
        Fun::Min | Fun::Max | Fun::MinByKey | Fun::MaxByKey => {
            if entries.is_empty() {
                Obs::Nil
            } else {
                let keys: Vec<Obs> = entries
                    .iter()
                    .map(|(k, v)| match &case.keyfn {
                        Some(kf) => kf.apply(k, v, &mut counter),
                        None => v.clone(),
                    })
                    .collect();
                let less = matches!(case.fun, Fun::Min | Fun::MinByKey);
                let mut best = 0;
                for j in 1..entries.len() {
                    if if less { lt(&keys[j], &keys[best]) } else { gt(&keys[j], &keys[best]) } {
                        best = j;
                    }
                }
                row(&entries[best].0, &entries[best].1)
            }
        }
        Fun::Sorted | Fun::SortedByKey => {
            let keys: Vec<Obs> = entries
                .iter()
                .map(|(k, v)| match &case.keyfn {
                    Some(kf) => kf.apply(k, v, &mut counter),
                    None => v.clone(),
                })
                .collect();
            Obs::Table(sorted_spec(&entries, &keys), 0)
        }
        Fun::ToArray => Obs::Table(entries.iter().enumerate().map(|(i, (_, v))| (Obs::Int(i as i64), v.clone())).collect(), 0),
    };
    (input, out, counter)
}

fn first_aspect(want: &Obs, got: Option<&Obs>) -> &'static str {
    match (want, got) {
        (Obs::Table(w, _), Some(Obs::Table(g, _))) => {
            let wk: Vec<&Obs> = w.iter().map(|e| &e.0).collect();
            let gk: Vec<&Obs> = g.iter().map(|e| &e.0).collect();
            let mut ws = wk.iter().map(|o| o.short()).collect::<Vec<_>>();
            let mut gs = gk.iter().map(|o| o.short()).collect::<Vec<_>>();
            if wk == gk {
                return "value";
            }
            ws.sort();
            gs.sort();
            if ws == gs {
                "order"
            } else {
                "membership"
            }
        }
        (_, None) => "missing",
        _ => "result",
    }
}

fn expected_error(s: &Schedule) -> &'static str {
    if s.fail_alloc.is_some() {
        "OutOfMemory"
    } else {
        "Timeout"
    }
}

/// `budget_fault`: a resource fault (budget expiry or failing allocation) was injected; the run
/// may end with `fault_error`
fn judge(case: &Case, out: &RunOut, budget_fault: bool, fault_error: &str) -> Vec<(Json, String)> {
    let mut v = vec![];
    let fname = format!("{:?}", case.fun);
    let (want_in, want_out) = expected(case);
    for f in out.findings.iter() {
        if f.kind == "reachable-object-swept" || f.kind == "double-free-object" {
            v.push((json!({"fun": fname, "aspect": "memory-safety", "detail": f.sig}), f.what.clone()));
        }
    }
    if let Some(p) = &out.panic {
        v.push((json!({"fun": fname, "aspect": "panic", "site": panic_site(p)}), format!("{fname}: panic {} at {}", p.msg, panic_site(p))));
        return v;
    }
    // the input is never modified, whatever happens (if the budget expired while the table was
    // still being built there is nothing to compare)
    if out.globals.get("g_in") != Some(&want_in) && !(budget_fault && !out.globals.contains_key("g_in")) {
        v.push((
            json!({"fun": fname, "aspect": "input-mutated"}),
            format!("{fname}: input table after the call is {:?}, expected {}", out.globals.get("g_in").map(|o| o.short()), want_in.short()),
        ));
    }
    if budget_fault {
        if innermost(&out.result) != fault_error && out.result != "Ok" {
            v.push((json!({"fun": fname, "aspect": "wrong-error"}), format!("{fname}: the injected fault should surface as {fault_error} but the run ended with {}", out.result)));
        }
        if out.result != "Ok" {
            return v;
        }
    }
    if out.result != "Ok" {
        v.push((json!({"fun": fname, "aspect": "run-failed", "error": innermost(&out.result)}), format!("{fname}: run ended with {} ({})", out.result, out.error_msg)));
        return v;
    }
    // a counting callback / key function is called once per row (only they touch the counter)
    let counts = matches!(case.cb, Some(Cb::Counter)) || matches!(case.keyfn, Some(KeyFn::NegCounter));
    if counts && case.non_table.is_none() {
        let want_calls = expected_with_calls(case).2;
        if out.globals.get("g_calls") != Some(&Obs::Int(want_calls)) {
            v.push((
                json!({"fun": fname, "aspect": "callback-call-count"}),
                format!("{fname}: the callback counted {:?} calls, the table has {} rows (expected {want_calls})", out.globals.get("g_calls").map(|o| o.short()), case.entries.len()),
            ));
        }
    }
    let got = out.globals.get("g_out");
    if got != Some(&want_out) {
        v.push((
            json!({"fun": fname, "aspect": first_aspect(&want_out, got)}),
            format!("{fname}: expected {} got {:?}", want_out.short(), got.map(|o| o.short())),
        ));
    }
    v
}

fn run_case_under(p: &CaoCompiledProgram, s: &Schedule) -> RunOut {
    run_program(p, &s.knobs, s.cfg(), s.host.clone())
}

fn violations_for(case: &Case, s: &Schedule, budget_fault: bool) -> Vec<(Json, String)> {
    let m = build(case);
    let p = match compile_module(&m) {
        Compiled::Ok(p) => p,
        // a program with decoys may be refused (duplicate name): nothing is computed wrongly then
        Compiled::Err(_) if case.decoys => return vec![],
        _ => return vec![(json!({"aspect": "harness-program-does-not-compile"}), "generated program does not compile".into())],
    };
    let out = run_case_under(&p, s);
    judge(case, &out, budget_fault, expected_error(s))
}

fn shrink_case(case: &Case, s: &Schedule, budget_fault: bool, sig: &Json) -> Case {
    let mut cur = case.clone();
    let mut i = cur.entries.len();
    while i > 0 {
        i -= 1;
        let mut cand = cur.clone();
        cand.entries.remove(i);
        if cur.as_array {
            for (j, e) in cand.entries.iter_mut().enumerate() {
                e.0 = V::Int(j as i64);
            }
        }
        if violations_for(&cand, s, budget_fault).iter().any(|(x, _)| x == sig) {
            cur = cand;
        }
    }
    cur
}

impl Check for C09 {
    fn id(&self) -> &'static str {
        "C09"
    }
    fn level(&self) -> &'static str {
        "exploration"
    }
    fn rule(&self) -> String {
        "one case = (library function, table of 0-20 entries (one case in seven: 21-90) with integer / string / mixed keys or array keys and values from one \
         comparable class for the ordering functions (small ints with ties, ints+reals, strings equal or of different length) or \
         of any kind for filter/map/any, callback from a family given both as cards and as a Rust function: threshold, index \
         test, length, identity, constant, allocating wrapper, counter closure updating a captured variable, key, nested \
         std.sorted; key functions: value, negation, length, constant, allocating, fresh string of that length, counter closure; \
         1 in 10 calls passes a non-table). Each case runs fault-free, with a collection at every allocation point (quarantine \
         audits), at 3 seeded single points, with real frees every 2nd allocation, and with 3 seeded budgets that expire during \
         the call. Non-trivial = a collection or a budget expiry happened; distinct = (case hash, schedule hash)."
            .to_string()
    }
    fn cases(&self, tier: Tier) -> u64 {
        match tier {
            Tier::Quick => 40_000,
            Tier::Thorough => 400_000,
        }
    }
    fn run_case(&self, ctx: &mut CaseCtx) {
        let mut wr = ctx.rng("workload");
        let case = gen_case(&mut wr);
        let cv = serde_json::to_value(&case).unwrap();
        let chash = crate::kernel::stable_hash_json(&cv);
        if ctx.case < 3 {
            ctx.sample = Some(json!({"case": cv, "expected": {"output": expected(&case).1}}));
        }
        ctx.count(&format!("reach:fun:{:?}", case.fun), 1);
        let m = build(&case);
        let p = match compile_module(&m) {
            Compiled::Ok(p) => p,
            Compiled::Err(_) if case.decoys => {
                ctx.count("decoy_programs_refused_by_the_compiler", 1);
                return;
            }
            _ => {
                ctx.violation(json!({"aspect": "harness-program-does-not-compile"}), "generated program does not compile", json!({"case": cv}));
                return;
            }
        };
        let mut base = Schedule::new(GcPlan::Never, true);
        base.knobs.budget = 200_000;
        ctx.progress("run fault-free");
        let out0 = run_case_under(&p, &base);
        ctx.evaluation();
        ctx.count("dispatches", out0.counters.dispatches);
        let a = out0.counters.allocs;
        let t = out0.counters.dispatches;
        let mut plans: Vec<(Schedule, bool)> = vec![(base.clone(), false)];
        let mut sr = ctx.rng("schedule");
        let mut s = base.clone();
        s.gc = GcPlan::Every;
        plans.push((s, false));
        for _ in 0..3 {
            if a > 0 {
                let mut s = base.clone();
                s.gc = GcPlan::At([sr.below(a)].into_iter().collect());
                plans.push((s, false));
            }
        }
        let mut s = base.clone();
        s.gc = GcPlan::EveryKth(2, 1);
        s.quarantine = false;
        plans.push((s, false));
        if out0.result == "Ok" && t > 4 {
            for _ in 0..3 {
                let mut s = base.clone();
                s.gc = GcPlan::Natural;
                s.quarantine = false;
                s.knobs.budget = 2 + sr.below(t - 2);
                plans.push((s, true));
            }
        }
        // a failing allocation somewhere in the call: OutOfMemory (possibly wrapped) or Ok, the
        // input untouched, nothing swept that is still in use
        if out0.result == "Ok" && a > 0 {
            for _ in 0..3 {
                let mut s = base.clone();
                s.gc = if sr.chance(1, 2) { GcPlan::Every } else { GcPlan::Never };
                s.fail_alloc = Some(sr.below(a));
                plans.push((s, true));
            }
        }
        for (i, (s, bf)) in plans.iter().enumerate() {
            ctx.progress(&format!("run sched {i}"));
            let out = if i == 0 { out0.clone() } else { run_case_under(&p, s) };
            if i > 0 {
                ctx.evaluation();
            }
            ctx.count("fault:collections_forced", out.counters.gcs_forced);
            if *bf && innermost(&out.result) == "OutOfMemory" {
                ctx.count("fault:allocation_failed_during_call", 1);
                if out.result != "OutOfMemory" {
                    ctx.count("probe:allocation_failed_inside_native", 1);
                }
            }
            if *bf && innermost(&out.result) == "Timeout" {
                ctx.count("fault:budget_expired_during_call", 1);
                if out.result != "Timeout" {
                    ctx.count("probe:budget_expired_inside_native_callback", 1);
                }
            }
            if out.counters.gc_in_nested_activation > 0 {
                ctx.count("probe:collection_inside_script_callback_of_native", 1);
            }
            if out.counters.gcs > 0 || (*bf && out.result != "Ok") {
                ctx.nontrivial(prng::mix(&[chash, s.hash()]));
            }
            for (sig, what) in judge(&case, &out, *bf, expected_error(s)) {
                if ctx.violations.iter().any(|v| v.sig == sig) {
                    continue;
                }
                ctx.violation(sig, what, json!({"case": cv, "schedule": s.to_json(), "budget_fault": bf, "module": module_json(&build(&case))}));
            }
        }
    }
    fn minimise(&self, replay: &Json, sig: &Json) -> Json {
        let Some(case) = replay.get("case").and_then(|c| serde_json::from_value::<Case>(c.clone()).ok()) else { return replay.clone() };
        let Some(s) = replay.get("schedule").and_then(Schedule::from_json) else { return replay.clone() };
        let bf = replay.get("budget_fault").and_then(|b| b.as_bool()).unwrap_or(false);
        let cm = shrink_case(&case, &s, bf, sig);
        json!({"case": cm, "schedule": s.to_json(), "budget_fault": bf, "module": module_json(&build(&cm))})
    }
    fn replay(&self, replay: &Json, ctx: &mut CaseCtx) {
        let Some(case) = replay.get("case").and_then(|c| serde_json::from_value::<Case>(c.clone()).ok()) else { return };
        let Some(s) = replay.get("schedule").and_then(Schedule::from_json) else { return };
        let bf = replay.get("budget_fault").and_then(|b| b.as_bool()).unwrap_or(false);
        ctx.progress("run replay");
        ctx.evaluation();
        for (sig, what) in violations_for(&case, &s, bf) {
            if !ctx.violations.iter().any(|v| v.sig == sig) {
                ctx.violation(sig, what, replay.clone());
            }
        }
    }
    fn assumptions(&self) -> Vec<String> {
        vec![
            "'smallest / largest / ascending' are defined through the language's comparison; the compared values of one case come from one mutually comparable class".into(),
            "callbacks are declared with the library's full parameter list (k, v, i) resp. (key, value); 1 case in 5 with small tables uses the shorter lists the repo's own tests use".into(),
            "under a budget expiry the only admissible outcomes are Timeout (possibly wrapped) or completion, and the input stays unmodified".into(),
        ]
    }
    fn components(&self) -> Json {
        json!({"real": ["stdlib cards (filter/map/any/min/max/sorted wrappers)", "native_minmax / native_sorted / native_to_array", "run_function", "compiler", "VM", "collector"],
               "stub": ["mk_str host native (used by one key function)"]})
    }
    fn asan_flavour_share(&self) -> bool {
        true
    }
    fn required_probes(&self, _tier: Tier) -> Vec<String> {
        vec![
            "fault:collections_forced".into(),
            "fault:budget_expired_during_call".into(),
            "probe:budget_expired_inside_native_callback".into(),
            "probe:collection_inside_script_callback_of_native".into(),
        ]
    }
}
