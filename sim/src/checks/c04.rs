//! C04 - Compiling and running are total: errors are values, never crashes or hangs.
//!
//! Run half (fault enumeration over seams S2, S3, S5): per program, from the dry run's allocation
//! count A, peak value-stack height h, peak call depth d and instruction count T: fail-at-j for
//! every j < A, value-stack size S for every S in 1..=h+2, call-stack size C for every C in
//! 0..=d+2, budgets {0,1,2,T-1,T,T+1}, a geometric sweep of memory limits, and seeded pairs.
//! Oracle: the call returns Ok / Err (no panic, no signal, no hang), and for an injected resource
//! fault the error is the corresponding kind (or the run ends as the fault-free run does).
//! Compile half (seeded input search, no fault dimension - stated as such): adversarial modules
//! that survive a JSON round trip must make `compile` return.
use super::vmcommon::*;
use crate::ctl::vmctl::{CtlConfig, GcPlan};
use crate::ctl::vmrun::{innermost, run_program, HostPlan, Knobs, RunOut};
use crate::gen::hostile::{gen_adversarial, gen_hostile};
use crate::gen::loops::{gen_loop_program, gen_shape};
use crate::gen::program::{gen_program, GenCfg};
use crate::kernel::{prng, CaseCtx, Check, Tier};
use cao_lang::compiler::Module;
use cao_lang::prelude::*;
use serde::{Deserialize, Serialize};
use serde_json::{json, Value as Json};

pub struct C04;

const BUDGET: u64 = 40_000;

#[derive(Clone, Debug, Serialize, Deserialize, PartialEq, Default)]
pub struct Faults {
    pub fail_alloc: Option<u64>,
    pub value_stack: Option<usize>,
    pub call_stack: Option<usize>,
    pub budget: Option<u64>,
    pub mem_limit: Option<usize>,
}

impl Faults {
    fn kinds(&self) -> Vec<&'static str> {
        let mut k = vec![];
        if self.fail_alloc.is_some() {
            k.push("alloc-failure");
        }
        if self.value_stack.is_some() {
            k.push("value-stack-size");
        }
        if self.call_stack.is_some() {
            k.push("call-stack-size");
        }
        if self.budget.is_some() {
            k.push("budget");
        }
        if self.mem_limit.is_some() {
            k.push("memory-limit");
        }
        k
    }
    fn allowed(&self) -> Vec<&'static str> {
        let mut k = vec![];
        if self.fail_alloc.is_some() || self.mem_limit.is_some() {
            k.push("OutOfMemory");
        }
        if self.value_stack.is_some() {
            k.push("Stackoverflow");
        }
        if self.call_stack.is_some() {
            k.push("CallStackOverflow");
        }
        if self.budget.is_some() {
            k.push("Timeout");
        }
        k
    }
}

fn run_with(p: &CaoCompiledProgram, f: &Faults) -> RunOut {
    let knobs = Knobs {
        budget: f.budget.unwrap_or(BUDGET),
        mem_limit: f.mem_limit.unwrap_or(400 * 1024),
        value_stack: f.value_stack.unwrap_or(256),
        call_stack: f.call_stack.unwrap_or(256),
        limit_from: None,
    };
    let cfg = CtlConfig {
        gc: GcPlan::Natural,
        fail_alloc: f.fail_alloc,
        abort_after_dispatches: Some(knobs.budget.max(BUDGET) + 16),
        ..Default::default()
    };
    run_program(p, &knobs, cfg, HostPlan::default())
}

/// violations of one run under `f`, given the fault-free outcome
fn judge(base: Option<&RunOut>, out: &RunOut, f: &Faults) -> Vec<(Json, String)> {
    let mut v = vec![];
    let fk = f.kinds().join("+");
    if let Some(p) = &out.panic {
        v.push((
            json!({"phase": "run", "kind": "panic", "site": panic_site(p)}),
            format!("panic while running ({}): {} at {}", if fk.is_empty() { "no fault" } else { &fk }, p.msg, panic_site(p)),
        ));
        return v;
    }
    if out.aborted {
        v.push((
            json!({"phase": "run", "kind": "budget-not-consumed"}),
            "the run executed more instructions than its budget allows".to_string(),
        ));
        return v;
    }
    for fd in out.findings.iter() {
        if ["double-free-object", "release-of-unknown-block", "panic-in-clear"].contains(&fd.kind.as_str()) {
            v.push((json!({"phase": "run", "kind": fd.kind}), fd.what.clone()));
        }
    }
    if let Some(b) = base {
        if !f.kinds().is_empty() && b.panic.is_none() {
            let got = innermost(&out.result).to_string();
            let base_kind = innermost(&b.result).to_string();
            // a host function that swallows its callee's failure (try0) may have swallowed the
            // fault's error: what the program does afterwards is its own business
            let swallowed_more = out.host_swallowed_kinds != b.host_swallowed_kinds;
            if got != base_kind && !f.allowed().contains(&got.as_str()) && !swallowed_more {
                v.push((
                    json!({"phase": "run", "kind": "wrong-error-for-fault", "got": got}),
                    format!(
                        "under an injected {fk} fault the run ended with {} ({}); expected one of {:?} or the fault-free outcome {}",
                        out.result, out.error_msg, f.allowed(), b.result
                    ),
                ));
            }
        }
    }
    v
}

/// Totality does not stop at the first run: a sequence of runs on one VM that is never cleared,
/// sharing a global table under a tight memory limit (so that growths of the table fail again and
/// again), with budget and allocation faults mixed in. Every run must come back.
fn examine_sequence(ctx: &mut CaseCtx, h: &super::c17::History) -> Vec<(Json, String)> {
    let mut found: Vec<(Json, String)> = vec![];
    let compiled: Vec<CaoCompiledProgram> = h
        .programs
        .iter()
        .filter_map(|m| match compile_module(m) {
            Compiled::Ok(p) => Some(p),
            _ => None,
        })
        .collect();
    if compiled.len() != h.programs.len() {
        return found;
    }
    let Some(mut machine) = super::c17::Machine::new(h) else { return found };
    let none = Faults::default();
    for (i, st) in h.steps.iter().enumerate() {
        ctx.progress(&format!("run sequence step {i}"));
        let (_obs, out) = machine.step(&compiled[st.program], &st.fault);
        ctx.evaluation();
        ctx.count("sequence_runs", 1);
        if innermost(&out.result) == "OutOfMemory" {
            ctx.count("fault:sequence_run_met_the_memory_limit", 1);
        }
        // the observer bound of a sequence step is the VM's own budget: only panics (incl. the
        // bounded probe loops giving up) and ledger findings are judged here
        let mut o2 = out;
        o2.aborted = false;
        for (s, w) in judge(None, &o2, &none) {
            let mut s = s;
            s["sequence"] = json!(true);
            if !found.iter().any(|(x, _)| x == &s) {
                found.push((s, format!("run #{i} of a sequence on one VM (never cleared, limit {} bytes): {w}", h.mem_limit)));
            }
        }
        if o2.panic.is_some() {
            break;
        }
    }
    machine.finish();
    found
}

fn examine_program(ctx: &mut CaseCtx, m: &Module, only: Option<&Faults>) -> Vec<(Json, String, Faults)> {
    let mut found: Vec<(Json, String, Faults)> = vec![];
    ctx.progress("compile");
    let p = match compile_module(m) {
        Compiled::Ok(p) => p,
        Compiled::Err(_) => {
            ctx.count("compile_errors", 1);
            return found;
        }
        Compiled::Panic(pr) => {
            found.push((
                json!({"phase": "compile", "kind": "panic", "site": panic_site(&pr)}),
                format!("compile panicked: {} at {}", pr.msg, panic_site(&pr)),
                Faults::default(),
            ));
            return found;
        }
    };
    let mut push = |found: &mut Vec<(Json, String, Faults)>, vs: Vec<(Json, String)>, f: &Faults| {
        for (s, w) in vs {
            if !found.iter().any(|(x, _, _)| x == &s) {
                found.push((s, w, f.clone()));
            }
        }
    };
    if let Some(f) = only {
        ctx.progress("run replay-base");
        let base = run_with(&p, &Faults::default());
        ctx.progress("run replay");
        let out = run_with(&p, f);
        ctx.evaluation();
        let vs = if f.kinds().is_empty() { judge(None, &base, f) } else { judge(Some(&base), &out, f) };
        push(&mut found, vs, f);
        return found;
    }
    ctx.progress("run dry");
    let none = Faults::default();
    let base = run_with(&p, &none);
    ctx.evaluation();
    ctx.count("dispatches", base.counters.dispatches);
    ctx.count(&format!("reach:baseline:{}", innermost(&base.result)), 1);
    push(&mut found, judge(None, &base, &none), &none);
    if base.panic.is_some() || base.aborted {
        return found;
    }
    let a = base.counters.allocs;
    let h = base.counters.peak_stack;
    let d = base.counters.peak_calls;
    let t = base.counters.dispatches;
    let (cap_a, cap_s) = match ctx.tier {
        Tier::Quick => (48u64, 40usize),
        Tier::Thorough => (400u64, 260usize),
    };
    let mut faults: Vec<Faults> = vec![];
    let mut sr = ctx.rng("schedule");
    if a <= cap_a {
        for j in 0..a {
            faults.push(Faults { fail_alloc: Some(j), ..Default::default() });
        }
    } else {
        for _ in 0..cap_a {
            faults.push(Faults { fail_alloc: Some(sr.below(a)), ..Default::default() });
        }
    }
    let smax = (h + 2).min(256);
    if smax <= cap_s {
        for s in 1..=smax {
            faults.push(Faults { value_stack: Some(s), ..Default::default() });
        }
    } else {
        for _ in 0..cap_s {
            faults.push(Faults { value_stack: Some(1 + sr.usize(smax)), ..Default::default() });
        }
    }
    let cmax = (d + 2).min(256);
    if cmax + 1 <= cap_s {
        for cs in 0..=cmax {
            faults.push(Faults { call_stack: Some(cs), ..Default::default() });
        }
    } else {
        for _ in 0..cap_s {
            faults.push(Faults { call_stack: Some(sr.usize(cmax + 1)), ..Default::default() });
        }
    }
    for n in [0u64, 1, 2, t.saturating_sub(1), t, t + 1] {
        faults.push(Faults { budget: Some(n), ..Default::default() });
    }
    let peak = base.counters.peak_allocated.max(64);
    let mut l = 48usize;
    // injected limits only ever restrict the fault-free configuration (400 KiB)
    while l < (peak * 2).min(400 * 1024) {
        faults.push(Faults { mem_limit: Some(l), ..Default::default() });
        l = l * 3 / 2 + 16;
    }
    // seeded pairs
    for _ in 0..6 {
        let mut f = Faults::default();
        for _ in 0..2 {
            match sr.below(5) {
                0 if a > 0 => f.fail_alloc = Some(sr.below(a)),
                1 => f.value_stack = Some(1 + sr.usize(smax)),
                2 => f.call_stack = Some(sr.usize(cmax + 1)),
                3 => f.budget = Some(sr.below(t + 2)),
                _ => f.mem_limit = Some((48 + sr.usize(peak * 2)).min(400 * 1024)),
            }
        }
        faults.push(f);
    }
    let phash = crate::kernel::stable_hash_json(&module_json(m));
    for (i, f) in faults.iter().enumerate() {
        ctx.progress(&format!("run fault {i} {}", f.kinds().join("+")));
        let out = run_with(&p, f);
        ctx.evaluation();
        ctx.count("dispatches", out.counters.dispatches);
        let got = innermost(&out.result).to_string();
        let fired = out.counters.alloc_fail_injected > 0
            || out.counters.alloc_fail_natural > 0
            || ["Stackoverflow", "CallStackOverflow", "Timeout", "OutOfMemory"].contains(&got.as_str());
        if fired {
            ctx.nontrivial(prng::mix(&[phash, crate::kernel::stable_hash_json(&serde_json::to_value(f).unwrap())]));
            for k in f.kinds() {
                ctx.count(&format!("fault:{k}_fired"), 1);
            }
            ctx.count(&format!("reach:error:{got}"), 1);
            if out.result != got {
                ctx.count("probe:fault_inside_host_or_native_callback", 1);
            }
        }
        push(&mut found, judge(Some(&base), &out, f), f);
    }
    found
}

fn gen_run_case(ctx: &CaseCtx) -> (Module, &'static str) {
    let mut wr = ctx.rng("workload");
    match ctx.case % 8 {
        0 | 1 => {
            let cfg = GenCfg::swarm(&mut wr);
            (gen_program(&mut wr, &cfg), "G-alloc")
        }
        2 => {
            let sh = gen_shape(&mut wr);
            (gen_loop_program(&sh), "G-loop")
        }
        _ => (gen_hostile(&mut wr), "G-hostile"),
    }
}

fn compile_half(ctx: &mut CaseCtx) {
    let mut wr = ctx.rng("workload");
    for k in 0..12 {
        let m = gen_adversarial(&mut wr);
        // only loader-admissible inputs count: JSON round trip
        let Ok(js) = serde_json::to_string(&m) else {
            ctx.count("adversarial_not_serialisable", 1);
            continue;
        };
        let Ok(m2) = serde_json::from_str::<Module>(&js) else {
            ctx.count("adversarial_rejected_by_loader", 1);
            continue;
        };
        ctx.progress(&format!("compile adversarial {k}"));
        ctx.evaluation();
        ctx.count("compile_half_modules", 1);
        ctx.nontrivial(prng::fnv64(js.as_bytes()));
        match compile_module(&m2) {
            Compiled::Ok(_) => ctx.count("reach:compile_ok", 1),
            Compiled::Err(e) => {
                let kind = format!("{:?}", e.payload);
                let kind = kind.split(|c: char| !c.is_alphanumeric()).next().unwrap_or("").to_string();
                ctx.count(&format!("reach:compile_error:{kind}"), 1);
            }
            Compiled::Panic(pr) => {
                let sig = json!({"phase": "compile", "kind": "panic", "site": panic_site(&pr)});
                if !ctx.violations.iter().any(|v| v.sig == sig) {
                    let what = format!("compile panicked: {} at {}", pr.msg, panic_site(&pr));
                    ctx.violation(sig, what, json!({"module": module_json(&m2), "faults": Faults::default(), "compile_only": true}));
                }
            }
        }
    }
}

/// shrinking for arbitrary (possibly ill-scoped) modules: plain card removal
fn shrink_any(m: &Module, max_tries: usize, mut fails: impl FnMut(&Module) -> bool) -> Module {
    let mut cur = m.clone();
    let mut tries = 0;
    // drop submodules / imports / functions first
    loop {
        let mut progressed = false;
        for i in (0..cur.submodules.len()).rev() {
            let mut cand = cur.clone();
            cand.submodules.remove(i);
            tries += 1;
            if fails(&cand) {
                cur = cand;
                progressed = true;
            }
        }
        for i in (0..cur.imports.len()).rev() {
            let mut cand = cur.clone();
            cand.imports.remove(i);
            tries += 1;
            if fails(&cand) {
                cur = cand;
                progressed = true;
            }
        }
        for i in (0..cur.functions.len()).rev() {
            let mut cand = cur.clone();
            cand.functions.remove(i);
            tries += 1;
            if fails(&cand) {
                cur = cand;
                progressed = true;
            }
        }
        if !progressed || tries > max_tries {
            break;
        }
    }
    shrink_module(&cur, max_tries, fails)
}

impl Check for C04 {
    fn id(&self) -> &'static str {
        "C04"
    }
    fn level(&self) -> &'static str {
        "fault_enumeration"
    }
    fn rule(&self) -> String {
        "sequence (1 of 16 cases): 5-21 runs on one VM that is never cleared, sharing a global table under a memory limit of          400-4400 bytes (growths of the table fail again and again), budget / allocation faults mixed in; every run must return.          run half (the other cases up to 6 of 8): one seeded program (G-alloc, G-loop or G-hostile: non-function callees, wrongly typed operands \
         for every operator / table instruction / stdlib function, i64 extremes, self- and mutually-referential tables compared, \
         hashed, used as keys, deep recursion, long strings); dry run gives A allocations, peak stack height h, peak call depth d, \
         T instructions; then EVERY j < A fails once (seeded subset above a per-tier cap), every value-stack size 1..=h+2, every \
         call-stack size 0..=d+2, budgets {0,1,2,T-1,T,T+1}, a geometric sweep of memory limits and 6 seeded fault pairs. \
         compile half (2 of 8 cases; seeded input search, no fault dimension): 12 adversarial modules (arbitrary card trees, \
         names, arities, imports, submodules, many globals / locals / captures, deep chains) that survive a JSON round trip. \
         A run is non-trivial if its fault fired; distinct = distinct (program hash, fault set) resp. distinct module texts."
            .to_string()
    }
    fn cases(&self, tier: Tier) -> u64 {
        match tier {
            Tier::Quick => 8000,
            Tier::Thorough => 150_000,
        }
    }
    fn run_case(&self, ctx: &mut CaseCtx) {
        if ctx.case % 8 >= 6 {
            compile_half(ctx);
            return;
        }
        if ctx.case % 8 == 5 && ctx.case % 16 == 5 {
            let mut wr = ctx.rng("workload");
            let h = super::c17::gen_persist_history(&mut wr);
            ctx.count("programs:sequence-on-one-vm", 1);
            let hv = serde_json::to_value(&h).unwrap();
            ctx.nontrivial(crate::kernel::stable_hash_json(&hv));
            for (sig, what) in examine_sequence(ctx, &h) {
                ctx.violation(sig, what, json!({"sequence": hv}));
            }
            return;
        }
        let (m, kind) = gen_run_case(ctx);
        ctx.count(&format!("programs:{kind}"), 1);
        if std::env::var_os("CAOSIM_DUMP").is_some() {
            eprintln!("MODULE {}", module_json(&m));
        }
        if ctx.case < 6 && (ctx.case == 0 || ctx.case == 3) {
            ctx.sample = Some(json!({"kind": kind, "module": module_json(&m),
                "faults": "fail-at-j for all j<A; value stack 1..=h+2; call stack 0..=d+2; budgets {0,1,2,T-1,T,T+1}; memory limits 48..2*peak; 6 pairs"}));
        }
        let found = examine_program(ctx, &m, None);
        for (sig, what, f) in found {
            ctx.violation(sig, what, json!({"module": module_json(&m), "faults": f, "cards": count_cards(&m)}));
        }
    }
    fn minimise(&self, replay: &Json, sig: &Json) -> Json {
        if let Some(h) = replay.get("sequence").and_then(|h| serde_json::from_value::<super::c17::History>(h.clone()).ok()) {
            // drop steps (never the first, which creates the shared table) while the same report persists
            let mut cur = h;
            let fails = |c: &super::c17::History| {
                let mut c2 = CaseCtx::new("C04", 0, 0, Tier::Quick);
                c2.progress_enabled = false;
                examine_sequence(&mut c2, c).iter().any(|(s, _)| s == sig)
            };
            let mut i = cur.steps.len();
            while i > 1 {
                i -= 1;
                let mut cand = cur.clone();
                cand.steps.remove(i);
                if fails(&cand) {
                    cur = cand;
                }
            }
            return json!({"sequence": cur});
        }
        let Some(m) = replay.get("module").and_then(module_from_json) else { return replay.clone() };
        let f: Faults = replay.get("faults").and_then(|f| serde_json::from_value(f.clone()).ok()).unwrap_or_default();
        if replay.get("compile_only").and_then(|b| b.as_bool()) == Some(true) {
            let site = sig.get("site").and_then(|s| s.as_str()).unwrap_or("").to_string();
            let mm = shrink_any(&m, 150, |cand| match compile_module(cand) {
                Compiled::Panic(p2) => panic_site(&p2) == site,
                _ => false,
            });
            return json!({"module": module_json(&mm), "faults": f, "compile_only": true});
        }
        let mm = shrink_module(&m, 60, |cand| {
            let mut c2 = CaseCtx::new("C04", 0, 0, Tier::Quick);
            c2.progress_enabled = false;
            examine_program(&mut c2, cand, Some(&f)).iter().any(|(s, _, _)| s == sig)
        });
        json!({"module": module_json(&mm), "faults": f, "cards": count_cards(&mm)})
    }
    fn replay(&self, replay: &Json, ctx: &mut CaseCtx) {
        if let Some(h) = replay.get("sequence").and_then(|h| serde_json::from_value::<super::c17::History>(h.clone()).ok()) {
            for (sig, what) in examine_sequence(ctx, &h) {
                ctx.violation(sig, what, replay.clone());
            }
            return;
        }
        let Some(m) = replay.get("module").and_then(module_from_json) else { return };
        let f: Faults = replay.get("faults").and_then(|f| serde_json::from_value(f.clone()).ok()).unwrap_or_default();
        if replay.get("compile_only").and_then(|b| b.as_bool()) == Some(true) {
            ctx.progress("compile replay");
            ctx.evaluation();
            if let Compiled::Panic(pr) = compile_module(&m) {
                ctx.violation(
                    json!({"phase": "compile", "kind": "panic", "site": panic_site(&pr)}),
                    format!("compile panicked: {} at {}", pr.msg, panic_site(&pr)),
                    replay.clone(),
                );
            }
            return;
        }
        for (sig, what, _) in examine_program(ctx, &m, Some(&f)) {
            ctx.violation(sig, what, replay.clone());
        }
    }
    fn assumptions(&self) -> Vec<String> {
        vec![
            "a hang is detected by the per-case watchdog (backstop) and, for loops that dispatch instructions, by the controller's dispatch bound; probe loops of the containers are bounded by hook H7".into(),
            "for an injected resource fault the accepted outcomes are the matching error kind (possibly wrapped in TaskFailure) or the fault-free outcome; when the try0 host stub swallowed other callee failures than in the fault-free run, any clean outcome is accepted (panics, crashes, hangs and budget overruns are still judged)".into(),
            "the compile half is seeded input search without a fault dimension".into(),
            "crashes of the worker process (signals) are attributed to the case in flight".into(),
        ]
    }
    fn components(&self) -> Json {
        json!({"real": ["compiler", "JSON loader (serde_json + the crate's derives)", "VM", "allocator / collector", "stdlib"],
               "stub": ["host natives (simulated host)"],
               "flavours": "strict build (debug assertions + overflow checks, the configuration the test suite runs in); thorough tier also runs half of the cases in a release-like build"})
    }
    fn asan_flavour_share(&self) -> bool {
        true
    }
    fn required_probes(&self, _tier: Tier) -> Vec<String> {
        vec![
            "fault:alloc-failure_fired".into(),
            "fault:value-stack-size_fired".into(),
            "fault:call-stack-size_fired".into(),
            "fault:budget_fired".into(),
            "fault:memory-limit_fired".into(),
            "compile_half_modules".into(),
            "reach:compile_ok".into(),
        ]
    }
    fn watchdog_s(&self, _tier: Tier) -> u64 {
        60
    }
    fn fast_flavour_share(&self) -> bool {
        true
    }
}
