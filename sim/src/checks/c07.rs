//! C07 - Tables are insertion-ordered maps keyed by value.
//!
//! Workload: operation histories (set / get / append / pop / len / nth-row / for-each / remove)
//! over 1-3 tables reached through aliases (locals, globals, table fields), with integer, finite
//! non-zero real, string (fresh objects with equal text) and nil keys; issued from scripts (cards)
//! and through the host API on objects owned by a VM.
//! Simulator dimension: every mutation may allocate (growth) and therefore collect or fail: each
//! history runs fault-free, under collector schedules, and with fail-at-j on its allocations.
use super::vmcommon::*;
use crate::ctl::obs::{observe, Obs};
use crate::ctl::vmctl::{CtlConfig, GcPlan, VmCtl};
use crate::ctl::vmrun::{gval, innermost, new_vm, run_program, HostPlan, Knobs, RunOut};
use crate::kernel::worker::catch;
use crate::kernel::{prng, CaseCtx, Check, Rng, Tier};
use cao_lang::compiler::{Card, CardBody, ForEach, Function, Module, UnaryExpression};
use cao_lang::prelude::*;
use serde::{Deserialize, Serialize};
use serde_json::{json, Value as Json};

pub struct C07;

#[derive(Clone, Debug, Serialize, Deserialize, PartialEq)]
pub enum K {
    Nil,
    Int(i64),
    Real(f64),
    Str(String),
    /// the script function kf<i> (arity i) as a value: a fresh function object at every use, equal
    /// by value to every other one of the same function (script histories only)
    Fun(u8),
}

/// function handles are an implementation detail: observations and the model agree on handle 0
fn norm(o: &Obs) -> Obs {
    match o {
        Obs::Func { kind, arity, .. } => Obs::Func { kind: kind.clone(), handle: 0, arity: *arity },
        Obs::Table(es, extra) => Obs::Table(es.iter().map(|(k, v)| (norm(k), norm(v))).collect(), *extra),
        other => other.clone(),
    }
}

#[derive(Clone, Debug, Serialize, Deserialize, PartialEq)]
pub enum Val {
    Nil,
    Int(i64),
    Str(String),
}

#[derive(Clone, Debug, Serialize, Deserialize, PartialEq)]
pub enum Op {
    Set(usize, K, Val),
    Get(usize, K),
    Append(usize, Val),
    Pop(usize),
    Len(usize),
    Row(usize, i64),
    ForEach(usize),
    /// host API only
    Remove(usize, K),
}

impl Op {
    fn name(&self) -> &'static str {
        match self {
            Op::Set(..) => "set",
            Op::Get(..) => "get",
            Op::Append(..) => "append",
            Op::Pop(..) => "pop",
            Op::Len(..) => "len",
            Op::Row(..) => "nth-row",
            Op::ForEach(..) => "for-each",
            Op::Remove(..) => "remove",
        }
    }
    fn table(&self) -> usize {
        match self {
            Op::Set(t, ..) | Op::Get(t, ..) | Op::Append(t, ..) | Op::Pop(t) | Op::Len(t) | Op::Row(t, ..) | Op::ForEach(t) | Op::Remove(t, ..) => *t,
        }
    }
}

#[derive(Clone, Debug, Serialize, Deserialize)]
pub struct History {
    pub tables: usize,
    /// for each op: through which alias the table is reached (0 local, 1 global, 2 field of holder)
    pub alias: Vec<u8>,
    pub ops: Vec<Op>,
}

impl K {
    fn obs(&self) -> Obs {
        match self {
            K::Nil => Obs::Nil,
            K::Int(i) => Obs::Int(*i),
            K::Real(f) => Obs::Real(f.to_bits()),
            K::Str(s) => Obs::Str(s.clone()),
            K::Fun(i) => Obs::Func { kind: "function".into(), handle: 0, arity: *i as u32 },
        }
    }
    fn card(&self) -> Card {
        match self {
            K::Nil => CardBody::ScalarNil.into(),
            K::Int(i) => Card::scalar_int(*i),
            K::Real(f) => CardBody::ScalarFloat(*f).into(),
            K::Str(s) => Card::string_card(s.clone()),
            K::Fun(i) => CardBody::Function(format!("kf{i}")).into(),
        }
    }
}
impl Val {
    fn obs(&self) -> Obs {
        match self {
            Val::Nil => Obs::Nil,
            Val::Int(i) => Obs::Int(*i),
            Val::Str(s) => Obs::Str(s.clone()),
        }
    }
    fn card(&self) -> Card {
        match self {
            Val::Nil => CardBody::ScalarNil.into(),
            Val::Int(i) => Card::scalar_int(*i),
            Val::Str(s) => Card::string_card(s.clone()),
        }
    }
}

/// the reference model: insertion ordered map
#[derive(Clone, Debug, Default, PartialEq)]
pub struct Model {
    pub entries: Vec<(K, Val)>,
}

impl Model {
    fn find(&self, k: &K) -> Option<usize> {
        self.entries.iter().position(|(x, _)| x == k)
    }
    fn set(&mut self, k: K, v: Val) {
        match self.find(&k) {
            Some(i) => self.entries[i].1 = v,
            None => self.entries.push((k, v)),
        }
    }
    fn get(&self, k: &K) -> Val {
        self.find(k).map(|i| self.entries[i].1.clone()).unwrap_or(Val::Nil)
    }
    fn append(&mut self, v: Val) {
        let mut i = self.entries.len() as i64;
        while self.find(&K::Int(i)).is_some() {
            i += 1;
        }
        self.entries.push((K::Int(i), v));
    }
    fn pop(&mut self) -> Val {
        self.entries.pop().map(|e| e.1).unwrap_or(Val::Nil)
    }
    fn remove(&mut self, k: &K) {
        if let Some(i) = self.find(k) {
            self.entries.remove(i);
        }
    }
    fn row(&self, i: i64) -> Obs {
        let (k, v) = if i >= 0 && (i as usize) < self.entries.len() {
            (self.entries[i as usize].0.obs(), self.entries[i as usize].1.obs())
        } else {
            (Obs::Nil, Obs::Nil)
        };
        Obs::Table(vec![(Obs::Str("key".into()), k), (Obs::Str("value".into()), v)], 0)
    }
    fn obs(&self) -> Obs {
        Obs::Table(self.entries.iter().map(|(k, v)| (k.obs(), v.obs())).collect(), 0)
    }
}

/// what a script observes for each op (the values it hands to `log`)
fn expected_log(h: &History) -> Vec<(usize, Vec<Obs>)> {
    let mut models = vec![Model::default(); h.tables];
    let mut out = vec![];
    for (i, op) in h.ops.iter().enumerate() {
        let m = &mut models[op.table()];
        match op {
            Op::Set(_, k, v) => m.set(k.clone(), v.clone()),
            Op::Get(_, k) => out.push((i, vec![m.get(k).obs()])),
            Op::Append(_, v) => m.append(v.clone()),
            Op::Pop(_) => {
                let v = m.pop();
                out.push((i, vec![v.obs()]));
            }
            Op::Len(_) => out.push((i, vec![Obs::Int(m.entries.len() as i64)])),
            Op::Row(_, n) => {
                // only in-range rows are specified; an out-of-range index is executed but its
                // result is not judged
                if (*n as usize) < m.entries.len() {
                    out.push((i, vec![m.row(*n)]))
                } else {
                    out.push((i, vec![Obs::Ref(usize::MAX)]))
                }
            }
            Op::ForEach(_) => {
                for (j, (k, v)) in m.entries.iter().enumerate() {
                    out.push((i, vec![Obs::Table(vec![(Obs::Int(0), Obs::Int(j as i64)), (Obs::Int(1), k.obs()), (Obs::Int(2), v.obs())], 0)]));
                }
            }
            Op::Remove(_, k) => m.remove(k),
        }
    }
    out
}

/// Keys of different kinds whose full 32-bit key hashes are equal (the table's hasher is 32-bit
/// FNV-1a over the i64 / the f64's bits / the string's bytes followed by 0xff; found once by
/// inverting the hash, see DESIGN 13.5 fifth round): only key equality tells them apart.
const FULL_HASH_FAMILIES: [(i64, u64, &str); 5] = [
    (-1, 0x3ff20000c81416a1, "aobmojyx"),
    (0, 0x3ff20000094785bc, "amqdcpxw"),
    (1, 0x400400003c95f7c1, "aaqpdkqs"),
    (2, 0x40300000b1c2cc3f, "amxjpwzd"),
    (5, 0x401080009be86771, "azzsmrwj"),
];

fn gen_key(rng: &mut Rng, host: bool, family: Option<usize>) -> K {
    if let Some(f) = family {
        if rng.chance(3, 5) {
            let (i, bits, s) = FULL_HASH_FAMILIES[f];
            return match rng.below(3) {
                0 => K::Int(i),
                1 => K::Real(f64::from_bits(bits)),
                _ => K::Str(s.to_string()),
            };
        }
    }
    if !host && rng.chance(1, 8) {
        return K::Fun(rng.below(3) as u8);
    }
    match rng.below(10) {
        0 => K::Nil,
        1..=4 => K::Int(*rng.pick(&[0i64, 1, 2, 3, 4, 5, 7, 9, -1, 100])),
        // (some of them closer to each other than f64::EPSILON: still different keys)
        5 => K::Real(*rng.pick(&[1.5f64, -2.25, 3.0, 1.0, 1e10, 0.3, 0.1 + 0.2, 1e-20, 2e-20, 3e-20])),
        _ => K::Str(rng.pick(&["a", "b", "key", "value", "", "k1", "long key with spaces"]).to_string()),
    }
}
fn gen_val(rng: &mut Rng, n: &mut i64) -> Val {
    *n += 1;
    match rng.below(6) {
        0 => Val::Nil,
        1 | 2 => Val::Str(format!("v{n}")),
        _ => Val::Int(*n),
    }
}

fn gen_history(rng: &mut Rng, host: bool) -> History {
    let tables = 1 + rng.usize(3);
    let n = 4 + rng.usize(36);
    let mut ops = vec![];
    let mut alias = vec![];
    let mut vn = 0i64;
    let style = rng.below(4);
    let family = if rng.chance(1, 5) { Some(rng.usize(FULL_HASH_FAMILIES.len())) } else { None };
    for _ in 0..n {
        let t = rng.usize(tables);
        let w: [u32; 8] = match style {
            0 => [30, 20, 10, 10, 8, 8, 6, 8],   // mixed
            1 => [10, 10, 40, 25, 5, 5, 3, 2],   // append / pop heavy
            2 => [45, 25, 5, 5, 5, 5, 5, 5],     // growth through set
            _ => [20, 15, 20, 20, 8, 8, 4, 5],
        };
        let op = match rng.weighted(&w) {
            0 => Op::Set(t, gen_key(rng, host, family), gen_val(rng, &mut vn)),
            1 => Op::Get(t, gen_key(rng, host, family)),
            2 => Op::Append(t, gen_val(rng, &mut vn)),
            3 => Op::Pop(t),
            4 => Op::Len(t),
            5 => Op::Row(t, rng.range(0, 12)),
            6 => Op::ForEach(t),
            _ => {
                if host {
                    Op::Remove(t, gen_key(rng, host, family))
                } else {
                    Op::Len(t)
                }
            }
        };
        ops.push(op);
        alias.push(rng.below(3) as u8);
    }
    History { tables, alias, ops }
}

fn c(b: CardBody) -> Card {
    b.into()
}
fn bin(a: Card, b: Card) -> Box<[Card; 2]> {
    Box::new([a, b])
}
fn logc(e: Card) -> Card {
    Card::set_global_var("sink", Card::call_native("log", vec![e]))
}

fn build_script(h: &History) -> Module {
    let mut main = Function::default();
    main.cards.push(Card::set_var("holder", c(CardBody::CreateTable)));
    for t in 0..h.tables {
        main.cards.push(Card::set_var(format!("t{t}"), c(CardBody::CreateTable)));
        main.cards.push(Card::set_global_var(format!("g{t}"), Card::read_var(format!("t{t}"))));
        main.cards.push(Card::set_property(Card::read_var(format!("t{t}")), Card::read_var("holder"), Card::string_card(format!("f{t}"))));
    }
    let tbl = |t: usize, a: u8| -> Card {
        match a {
            0 => Card::read_var(format!("t{t}")),
            1 => Card::read_var(format!("g{t}")),
            _ => Card::get_property(Card::read_var("holder"), Card::string_card(format!("f{t}"))),
        }
    };
    for (i, op) in h.ops.iter().enumerate() {
        let a = h.alias[i];
        let st = match op {
            Op::Set(t, k, v) => Card::set_property(v.card(), tbl(*t, a), k.card()),
            Op::Get(t, k) => logc(Card::get_property(tbl(*t, a), k.card())),
            Op::Append(t, v) => c(CardBody::AppendTable(bin(v.card(), tbl(*t, a)))),
            Op::Pop(t) => logc(c(CardBody::PopTable(UnaryExpression::new(tbl(*t, a))))),
            Op::Len(t) => logc(c(CardBody::Len(UnaryExpression::new(tbl(*t, a))))),
            Op::Row(t, n) => logc(c(CardBody::Get(bin(tbl(*t, a), Card::scalar_int(*n))))),
            Op::ForEach(t) => c(CardBody::ForEach(Box::new(ForEach {
                i: Some(format!("i{i}")),
                k: Some(format!("k{i}")),
                v: Some(format!("v{i}")),
                iterable: Box::new(tbl(*t, a)),
                body: Box::new(Card::composite_card(
                    "body",
                    vec![
                        Card::set_var(format!("row{i}"), c(CardBody::Array(vec![Card::read_var(format!("i{i}")), Card::read_var(format!("k{i}")), Card::read_var(format!("v{i}"))]))),
                        logc(Card::read_var(format!("row{i}"))),
                    ],
                )),
            }))),
            Op::Remove(..) => logc(Card::scalar_int(0)),
        };
        main.cards.push(st);
    }
    for t in 0..h.tables {
        main.cards.push(Card::set_global_var(format!("final{t}"), Card::read_var(format!("t{t}"))));
    }
    let mut m = Module::default();
    m.functions.push(("main".into(), main));
    // the functions used as keys
    for i in 0..3usize {
        let mut f = Function::default();
        for j in 0..i {
            f.arguments.push(format!("a{j}"));
        }
        f.cards.push(Card::return_card(Card::scalar_int(i as i64)));
        m.functions.push((format!("kf{i}"), f));
    }
    m
}

fn final_models(h: &History, upto: usize) -> Vec<Model> {
    let mut models = vec![Model::default(); h.tables];
    for op in h.ops.iter().take(upto) {
        let m = &mut models[op.table()];
        match op {
            Op::Set(_, k, v) => m.set(k.clone(), v.clone()),
            Op::Append(_, v) => m.append(v.clone()),
            Op::Pop(_) => {
                m.pop();
            }
            Op::Remove(_, k) => m.remove(k),
            _ => {}
        }
    }
    models
}

/// script path: compare the host log (values handed to `log`) with the model
fn judge_script(h: &History, out: &RunOut, faulted: bool) -> Vec<(Json, String)> {
    let mut v = vec![];
    for f in out.findings.iter() {
        if f.kind == "reachable-object-swept" || f.kind == "double-free-object" {
            v.push((json!({"path": "script", "diverged": "memory-safety", "detail": f.sig}), f.what.clone()));
        }
    }
    if let Some(p) = &out.panic {
        v.push((json!({"path": "script", "diverged": "panic", "site": panic_site(p)}), format!("panic: {} at {}", p.msg, panic_site(p))));
        return v;
    }
    let want = expected_log(h);
    let got: Vec<&Vec<Obs>> = out.host_log.iter().filter(|c| c.name == "log").map(|c| &c.args).collect();
    let complete = out.result == "Ok";
    if !complete && !(faulted && innermost(&out.result) == "OutOfMemory") {
        v.push((json!({"path": "script", "diverged": "run-failed", "error": innermost(&out.result)}), format!("run ended with {} ({})", out.result, out.error_msg)));
        return v;
    }
    let n = if complete { want.len().max(got.len()) } else { got.len() };
    for j in 0..n {
        match (want.get(j), got.get(j)) {
            (Some((_, w)), Some(_)) if w[0] == Obs::Ref(usize::MAX) => {}
            (Some((oi, w)), Some(g)) => {
                let g: Vec<Obs> = g.iter().map(norm).collect();
                let g = &g;
                if w != g {
                    let op = &h.ops[*oi];
                    let prev = if *oi > 0 { h.ops[..*oi].iter().rev().find(|o| o.table() == op.table() && !matches!(o, Op::Get(..) | Op::Len(..) | Op::Row(..) | Op::ForEach(..))).map(|o| o.name()).unwrap_or("none") } else { "none" };
                    v.push((
                        json!({"path": "script", "diverged": format!("{}-after-{}", op.name(), prev)}),
                        format!("op #{oi} {:?}: expected {} got {}", op, w[0].short(), g[0].short()),
                    ));
                    return v;
                }
            }
            (Some((oi, _)), None) => {
                v.push((json!({"path": "script", "diverged": "missing-observation"}), format!("op #{oi} {:?} produced no observation", h.ops[*oi])));
                return v;
            }
            (None, Some(g)) => {
                v.push((json!({"path": "script", "diverged": "extra-observation"}), format!("unexpected observation {}", g[0].short())));
                return v;
            }
            (None, None) => {}
        }
    }
    if complete {
        let models = final_models(h, h.ops.len());
        for (t, m) in models.iter().enumerate() {
            if out.globals.get(&format!("final{t}")).map(norm) != Some(m.obs()) {
                v.push((
                    json!({"path": "script", "diverged": "final-contents"}),
                    format!("table {t}: final contents {:?}, model {}", out.globals.get(&format!("final{t}")).map(|o| o.short()), m.obs().short()),
                ));
                break;
            }
        }
    }
    v
}

fn sched_for(gc: GcPlan, quarantine: bool, fail: Option<u64>) -> Schedule {
    let mut s = Schedule::new(gc, quarantine);
    s.knobs.budget = 100_000;
    s.fail_alloc = fail;
    s
}

fn script_violations(h: &History, s: &Schedule) -> (Vec<(Json, String)>, Option<RunOut>) {
    let m = build_script(h);
    let Compiled::Ok(p) = compile_module(&m) else {
        return (vec![(json!({"path": "script", "diverged": "harness-program-does-not-compile"}), String::new())], None);
    };
    let out = run_program(&p, &s.knobs, s.cfg(), s.host.clone());
    (judge_script(h, &out, s.fail_alloc.is_some()), Some(out))
}

// ---------------------------------------------------------------------------------------------
// host path

fn kval(vm: &mut Vm<crate::ctl::vmrun::Host>, k: &K, keep: &mut Vec<cao_lang::vm::runtime::cao_lang_object::ObjectGcGuard>) -> Result<Value, ExecutionErrorPayload> {
    Ok(match k {
        K::Nil => Value::Nil,
        K::Int(i) => Value::Integer(*i),
        K::Real(f) => Value::Real(*f),
        K::Str(s) => {
            let g = vm.init_string(s)?;
            let v = gval(&g);
            keep.push(g);
            v
        }
        // never generated for host histories
        K::Fun(_) => Value::Nil,
    })
}
fn vval(vm: &mut Vm<crate::ctl::vmrun::Host>, v: &Val, keep: &mut Vec<cao_lang::vm::runtime::cao_lang_object::ObjectGcGuard>) -> Result<Value, ExecutionErrorPayload> {
    Ok(match v {
        Val::Nil => Value::Nil,
        Val::Int(i) => Value::Integer(*i),
        Val::Str(s) => {
            let g = vm.init_string(s)?;
            let v = gval(&g);
            keep.push(g);
            v
        }
    })
}

/// host path: drive CaoLangTable through its API on objects owned by a VM, compare with the
/// model after every operation, plus cross-invariants between len / keys / iter / get
fn host_violations(h: &History, gc: GcPlan, fail: Option<u64>) -> (Vec<(Json, String)>, u64, u64, u64) {
    let mut v: Vec<(Json, String)> = vec![];
    let cfg = CtlConfig { gc, fail_alloc: fail, quarantine: false, ..Default::default() };
    let ctl = VmCtl::new(cfg);
    ctl.install();
    let Some(mut vm) = new_vm(&ctl, &Knobs::default(), HostPlan::default()) else {
        VmCtl::uninstall();
        return (v, 0, 0, 0);
    };
    let r = catch(|| -> Vec<(Json, String)> {
        let mut v = vec![];
        // every object the host creates stays guarded (the host's own rooting discipline)
        let mut keep = vec![];
        let mut tables = vec![];
        for _ in 0..h.tables {
            match vm.init_table() {
                Ok(g) => tables.push(g),
                Err(_) => return v, // construction failed under the injected fault: nothing to check
            }
        }
        let mut models = vec![Model::default(); h.tables];
        let mut failed_once = false;
        for (i, op) in h.ops.iter().enumerate() {
            let t = op.table();
            let prev = h.ops[..i].iter().rev().find(|o| o.table() == t).map(|o| o.name()).unwrap_or("none");
            let mut diverged: Option<(String, String)> = None;
            let before = models[t].clone();
            let mut fallible_failed = false;
            match op {
                Op::Set(_, k, val) => {
                    let (kv, vv) = match (kval(&mut vm, k, &mut keep), vval(&mut vm, val, &mut keep)) {
                        (Ok(a), Ok(b)) => (a, b),
                        _ => {
                            failed_once = true;
                            continue;
                        }
                    };
                    let table = tables[t].as_table_mut().unwrap();
                    match table.insert(kv, vv) {
                        Ok(()) => models[t].set(k.clone(), val.clone()),
                        Err(ExecutionErrorPayload::OutOfMemory) if fail.is_some() && !failed_once => {
                            fallible_failed = true;
                            failed_once = true;
                        }
                        Err(e) => diverged = Some(("unexpected-error".into(), format!("{e:?}"))),
                    }
                }
                Op::Append(_, val) => {
                    let vv = match vval(&mut vm, val, &mut keep) {
                        Ok(a) => a,
                        _ => {
                            failed_once = true;
                            continue;
                        }
                    };
                    let table = tables[t].as_table_mut().unwrap();
                    match table.append(vv) {
                        Ok(()) => models[t].append(val.clone()),
                        Err(ExecutionErrorPayload::OutOfMemory) if fail.is_some() && !failed_once => {
                            fallible_failed = true;
                            failed_once = true;
                        }
                        Err(e) => diverged = Some(("unexpected-error".into(), format!("{e:?}"))),
                    }
                }
                Op::Get(_, k) => {
                    let kv = match kval(&mut vm, k, &mut keep) {
                        Ok(a) => a,
                        _ => {
                            failed_once = true;
                            continue;
                        }
                    };
                    let table = tables[t].as_table().unwrap();
                    let got = table.get(&kv).copied().map(observe).unwrap_or(Obs::Nil);
                    let want = models[t].get(k).obs();
                    if got != want {
                        diverged = Some((format!("get-after-{prev}"), format!("get({k:?}) = {} want {}", got.short(), want.short())));
                    }
                }
                Op::Pop(_) => {
                    let table = tables[t].as_table_mut().unwrap();
                    match table.pop() {
                        Ok(val) => {
                            let want = models[t].pop().obs();
                            if observe(val) != want {
                                diverged = Some((format!("pop-after-{prev}"), format!("pop = {} want {}", observe(val).short(), want.short())));
                            }
                        }
                        Err(e) => diverged = Some(("unexpected-error".into(), format!("{e:?}"))),
                    }
                }
                Op::Len(_) => {
                    let table = tables[t].as_table().unwrap();
                    if table.len() != models[t].entries.len() {
                        diverged = Some((format!("len-after-{prev}"), format!("len {} want {}", table.len(), models[t].entries.len())));
                    }
                }
                Op::Row(_, n) => {
                    let table = tables[t].as_table().unwrap();
                    if *n >= 0 {
                        let key = table.nth_key(*n as usize);
                        let want = models[t].entries.get(*n as usize).map(|e| e.0.obs()).unwrap_or(Obs::Nil);
                        if observe(key) != want {
                            diverged = Some((format!("nth-row-after-{prev}"), format!("nth_key({n}) = {} want {}", observe(key).short(), want.short())));
                        }
                    }
                }
                Op::ForEach(_) => {
                    let table = tables[t].as_table().unwrap();
                    let got: Vec<(Obs, Obs)> = table.iter().map(|(k, v)| (observe(*k), observe(*v))).collect();
                    let want: Vec<(Obs, Obs)> = models[t].entries.iter().map(|(k, v)| (k.obs(), v.obs())).collect();
                    if got != want {
                        diverged = Some((format!("for-each-after-{prev}"), format!("iteration {:?} want {:?}", got.len(), want.len())));
                    }
                }
                Op::Remove(_, k) => {
                    let kv = match kval(&mut vm, k, &mut keep) {
                        Ok(a) => a,
                        _ => {
                            failed_once = true;
                            continue;
                        }
                    };
                    let table = tables[t].as_table_mut().unwrap();
                    match table.remove(kv) {
                        Ok(()) => models[t].remove(k),
                        Err(e) => diverged = Some(("unexpected-error".into(), format!("{e:?}"))),
                    }
                }
            }
            // cross-invariants through the host view: len, keys, iter and get describe one key set
            if diverged.is_none() {
                let table = tables[t].as_table().unwrap();
                let obs = Obs::Table(table.iter().map(|(k, v)| (observe(*k), observe(*v))).collect(), 0);
                let ok_model = obs == models[t].obs();
                let ok_before = fallible_failed && obs == before.obs();
                // after a failed insert the table equals the model before or after that operation
                if fallible_failed {
                    let mut after = before.clone();
                    match op {
                        Op::Set(_, k, val) => after.set(k.clone(), val.clone()),
                        Op::Append(_, val) => after.append(val.clone()),
                        _ => {}
                    }
                    if obs == after.obs() {
                        models[t] = after;
                    } else if !ok_before {
                        diverged = Some((format!("contents-after-failed-{}", op.name()), format!("table {} model-before {}", obs.short(), before.obs().short())));
                    }
                } else if !ok_model {
                    diverged = Some((format!("contents-after-{}", op.name()), format!("table {} model {}", obs.short(), models[t].obs().short())));
                }
                if diverged.is_none() {
                    let nkeys = table.keys().len();
                    let nmap = {
                        let m: &cao_lang::collections::hash_map::CaoHashMap<Value, Value, cao_lang::verif::AllocProxy> = table;
                        m.len()
                    };
                    if table.len() != nkeys || nkeys != nmap || table.iter().count() != nkeys {
                        diverged = Some((
                            format!("views-disagree-after-{}", op.name()),
                            format!("len {} keys {} hash-part {} iter {}", table.len(), nkeys, nmap, table.iter().count()),
                        ));
                    }
                }
            }
            if let Some((d, detail)) = diverged {
                v.push((json!({"path": "host", "diverged": d}), format!("op #{i} {:?}: {detail}", op)));
                break;
            }
        }
        drop(keep);
        drop(tables);
        v
    });
    match r {
        Ok(mut found) => v.append(&mut found),
        Err(p) => v.push((json!({"path": "host", "diverged": "panic", "site": panic_site(&p)}), format!("panic: {} at {}", p.msg, panic_site(&p)))),
    }
    let c = ctl.counters();
    let mut out = crate::ctl::vmrun::empty_out();
    crate::ctl::vmrun::teardown(vm, &ctl, &mut out);
    VmCtl::uninstall();
    for f in ctl.findings().iter() {
        if ["double-free-object", "release-of-unknown-block", "refund-mismatch", "accounted-nonzero-after-clear"].contains(&f.kind.as_str()) {
            v.push((json!({"path": "host", "diverged": f.kind}), f.what.clone()));
        }
    }
    (v, c.allocs, c.gcs, c.alloc_fail_injected)
}

fn shrink_history(h: &History, still: &dyn Fn(&History) -> bool) -> History {
    let mut cur = h.clone();
    loop {
        let mut changed = false;
        let mut i = cur.ops.len();
        while i > 0 {
            i -= 1;
            let mut cand = cur.clone();
            cand.ops.remove(i);
            cand.alias.remove(i);
            if still(&cand) {
                cur = cand;
                changed = true;
            }
        }
        if !changed {
            break;
        }
    }
    for i in 0..cur.alias.len() {
        if cur.alias[i] != 0 {
            let mut cand = cur.clone();
            cand.alias[i] = 0;
            if still(&cand) {
                cur = cand;
            }
        }
    }
    cur
}

impl Check for C07 {
    fn id(&self) -> &'static str {
        "C07"
    }
    fn level(&self) -> &'static str {
        "exploration"
    }
    fn rule(&self) -> String {
        "one case = one seeded history of 4-40 operations (set / get / append / pop / len / nth-row / for-each / remove) over 1-3 \
         tables with integer, finite non-zero real, string (fresh objects with equal text) and nil keys. Even cases issue it from \
         a script (tables reached through a local, a global and a field of another table; observations flow through the log \
         stub), odd cases through the host API (CaoLangTable on objects owned by a VM; model compared and len / keys / hash part / \
         iter cross-checked after every operation). Each history runs fault-free, with a collection at every allocation point, \
         at seeded single points, and with every allocation index (seeded subset above a cap) failing once. Non-trivial = a \
         collection ran or the failure fired; distinct = (history hash, schedule)."
            .to_string()
    }
    fn cases(&self, tier: Tier) -> u64 {
        match tier {
            Tier::Quick => 5000,
            Tier::Thorough => 120_000,
        }
    }
    fn run_case(&self, ctx: &mut CaseCtx) {
        let mut wr = ctx.rng("workload");
        let host = ctx.case % 2 == 1;
        let h = gen_history(&mut wr, host);
        let hv = serde_json::to_value(&h).unwrap();
        let hh = crate::kernel::stable_hash_json(&hv);
        if ctx.case < 2 {
            ctx.sample = Some(json!({"path": if host { "host" } else { "script" }, "history": hv}));
        }
        let mut sr = ctx.rng("schedule");
        let cap = match ctx.tier {
            Tier::Quick => 24u64,
            Tier::Thorough => 200,
        };
        if host {
            ctx.progress("run host fault-free");
            let (vs, allocs, _, _) = host_violations(&h, GcPlan::Natural, None);
            ctx.evaluation();
            ctx.count("host_path_histories", 1);
            let mut plans: Vec<(GcPlan, Option<u64>)> = vec![(GcPlan::Every, None), (GcPlan::EveryKth(3, 1), None)];
            let js: Vec<u64> = if allocs <= cap { (0..allocs).collect() } else { (0..cap).map(|_| sr.below(allocs)).collect() };
            for j in js {
                plans.push((GcPlan::Natural, Some(j)));
            }
            let mut all = vec![(vs, GcPlan::Natural, None)];
            for (gc, f) in plans {
                ctx.progress("run host sched");
                let (vs, _, gcs, fired) = host_violations(&h, gc.clone(), f);
                ctx.evaluation();
                ctx.count("fault:collections_forced", gcs);
                ctx.count("fault:alloc_fail_fired", fired);
                if gcs > 0 || fired > 0 {
                    ctx.nontrivial(prng::mix(&[hh, crate::kernel::stable_hash_json(&json!([gc.to_json(), f]))]));
                }
                all.push((vs, gc, f));
            }
            for (vs, gc, f) in all {
                for (sig, what) in vs {
                    if ctx.violations.iter().any(|v| v.sig == sig) {
                        continue;
                    }
                    ctx.violation(sig, what, json!({"history": hv, "path": "host", "gc": gc.to_json(), "fail_alloc": f}));
                }
            }
        } else {
            ctx.count("script_path_histories", 1);
            let base = sched_for(GcPlan::Never, true, None);
            ctx.progress("run script fault-free");
            let (vs0, out0) = script_violations(&h, &base);
            ctx.evaluation();
            let a = out0.as_ref().map(|o| o.counters.allocs).unwrap_or(0);
            if let Some(o) = &out0 {
                ctx.count("dispatches", o.counters.dispatches);
            }
            let mut scheds = vec![sched_for(GcPlan::Every, true, None), sched_for(GcPlan::EveryKth(2, 0), false, None)];
            for _ in 0..3 {
                if a > 0 {
                    scheds.push(sched_for(GcPlan::At([sr.below(a)].into_iter().collect()), true, None));
                }
            }
            let js: Vec<u64> = if a <= cap { (0..a).collect() } else { (0..cap).map(|_| sr.below(a)).collect() };
            for j in js {
                scheds.push(sched_for(GcPlan::Natural, false, Some(j)));
            }
            let mut all = vec![(vs0, base)];
            for s in scheds {
                ctx.progress("run script sched");
                let (vs, out) = script_violations(&h, &s);
                ctx.evaluation();
                if let Some(o) = &out {
                    ctx.count("fault:collections_forced", o.counters.gcs_forced);
                    ctx.count("fault:alloc_fail_fired", o.counters.alloc_fail_injected);
                    if o.counters.gcs > 0 || o.counters.alloc_fail_injected > 0 {
                        ctx.nontrivial(prng::mix(&[hh, s.hash()]));
                    }
                }
                all.push((vs, s));
            }
            for (vs, s) in all {
                for (sig, what) in vs {
                    if ctx.violations.iter().any(|v| v.sig == sig) {
                        continue;
                    }
                    ctx.violation(sig, what, json!({"history": hv, "path": "script", "schedule": s.to_json(), "module": module_json(&build_script(&h))}));
                }
            }
        }
    }
    fn minimise(&self, replay: &Json, sig: &Json) -> Json {
        let Some(h) = replay.get("history").and_then(|h| serde_json::from_value::<History>(h.clone()).ok()) else { return replay.clone() };
        if replay.get("path").and_then(|p| p.as_str()) == Some("host") {
            let gc = replay.get("gc").and_then(GcPlan::from_json).unwrap_or(GcPlan::Natural);
            let f = replay.get("fail_alloc").and_then(|f| f.as_u64());
            // allocation indices shift when operations are dropped: histories with an injected
            // failure are not shrunk
            let hm = if f.is_none() {
                shrink_history(&h, &|c| host_violations(c, gc.clone(), None).0.iter().any(|(s, _)| s == sig))
            } else {
                h.clone()
            };
            json!({"history": hm, "path": "host", "gc": gc.to_json(), "fail_alloc": f})
        } else {
            let Some(s) = replay.get("schedule").and_then(Schedule::from_json) else { return replay.clone() };
            let hm = if s.fail_alloc.is_none() && matches!(s.gc, GcPlan::Never | GcPlan::Every | GcPlan::EveryKth(..)) {
                shrink_history(&h, &|c| script_violations(c, &s).0.iter().any(|(x, _)| x == sig))
            } else {
                h.clone()
            };
            json!({"history": hm, "path": "script", "schedule": s.to_json(), "module": module_json(&build_script(&hm))})
        }
    }
    fn replay(&self, replay: &Json, ctx: &mut CaseCtx) {
        let Some(h) = replay.get("history").and_then(|h| serde_json::from_value::<History>(h.clone()).ok()) else { return };
        ctx.progress("run replay");
        ctx.evaluation();
        let vs = if replay.get("path").and_then(|p| p.as_str()) == Some("host") {
            let gc = replay.get("gc").and_then(GcPlan::from_json).unwrap_or(GcPlan::Natural);
            let f = replay.get("fail_alloc").and_then(|f| f.as_u64());
            host_violations(&h, gc, f).0
        } else {
            let Some(s) = replay.get("schedule").and_then(Schedule::from_json) else { return };
            script_violations(&h, &s).0
        };
        for (sig, what) in vs {
            if !ctx.violations.iter().any(|v| v.sig == sig) {
                ctx.violation(sig, what, replay.clone());
            }
        }
    }
    fn assumptions(&self) -> Vec<String> {
        vec![
            "key equality as stated: equal integers, strings with equal text, equal finite non-zero reals, nil; an integer and a real are different keys".into(),
            "under an injected allocation failure the failing operation may report OutOfMemory; the table must then equal the model before or after that one operation (host path) resp. the observations up to the failure must match (script path)".into(),
            "on the host path the harness keeps every object it creates under a guard (the host's rooting discipline)".into(),
        ]
    }
    fn components(&self) -> Json {
        json!({"real": ["CaoLangTable", "CaoHashMap<Value,Value,AllocProxy>", "Value Hash/Eq", "table instructions of the VM", "collector / allocator"],
               "stub": ["log host native (observation channel)"]})
    }
    fn asan_flavour_share(&self) -> bool {
        true
    }
    fn required_probes(&self, _tier: Tier) -> Vec<String> {
        vec![
            "fault:collections_forced".into(),
            "fault:alloc_fail_fired".into(),
            "host_path_histories".into(),
            "script_path_histories".into(),
        ]
    }
}
