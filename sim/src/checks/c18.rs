//! C18 - Host functions receive the right arguments and can safely re-enter scripts.
//!
//! The host is the simulated peer (seam S4): typed natives of arity 0-4 record what they receive
//! and return chosen values; re-entering natives push arguments and call `run_function` on script
//! functions, closures and native-function values whose behaviour (return early, return nothing,
//! fail, recurse through another native, run out of budget) is part of the generated case; the
//! collector may run at every allocation.
use super::vmcommon::*;
use crate::ctl::obs::{observe, Obs};
use crate::ctl::vmctl::{CtlConfig, GcPlan, VmCtl};
use crate::ctl::vmrun::{collect, gval, innermost, new_vm, teardown, Host, HostCall, HostPlan, Knobs, RunOut};
use crate::kernel::worker::catch;
use crate::kernel::{prng, CaseCtx, Check, Rng, Tier};
use cao_lang::compiler::{Card, CardBody, Function, Module};
use cao_lang::prelude::*;
use serde::{Deserialize, Serialize};
use serde_json::{json, Value as Json};

pub struct C18;

type R = Result<Value, ExecutionErrorPayload>;

// ---------------------------------------------------------------------------------------------
// typed natives (the simulated host)

fn rec(vm: &mut Vm<Host>, name: &str, args: Vec<Obs>) -> Value {
    let k = vm.auxiliary_data.ncalls;
    vm.auxiliary_data.ncalls += 1;
    let ctl = vm.auxiliary_data.ctl.clone();
    vm.auxiliary_data.log.push(HostCall {
        name: name.to_string(),
        args,
        decision: String::new(),
        stack_height: vm.runtime_data.verif_stack_height(),
        call_depth: vm.runtime_data.verif_call_depth(),
        dispatches: ctl.counters().dispatches,
        allocs: ctl.counters().allocs,
    });
    Value::Integer(1000 + k as i64)
}

fn tobs(t: &CaoLangTable) -> Obs {
    Obs::Table(t.iter().map(|(k, v)| (observe(*k), observe(*v))).collect(), 0)
}
fn ni(n: Nilable<i64>) -> Obs {
    match n.0 {
        None => Obs::Nil,
        Some(i) => Obs::Int(i),
    }
}
fn ns(n: Nilable<&str>) -> Obs {
    match n.0 {
        None => Obs::Nil,
        Some(s) => Obs::Str(s.to_string()),
    }
}
fn fo(f: f64) -> Obs {
    Obs::Real(f.to_bits())
}

fn t1_i(vm: &mut Vm<Host>, a: i64) -> R {
    Ok(rec(vm, "t1_i", vec![Obs::Int(a)]))
}
fn t1_f(vm: &mut Vm<Host>, a: f64) -> R {
    Ok(rec(vm, "t1_f", vec![fo(a)]))
}
fn t1_b(vm: &mut Vm<Host>, a: bool) -> R {
    Ok(rec(vm, "t1_b", vec![Obs::Int(a as i64)]))
}
fn t1_s(vm: &mut Vm<Host>, a: &str) -> R {
    Ok(rec(vm, "t1_s", vec![Obs::Str(a.to_string())]))
}
fn t1_v(vm: &mut Vm<Host>, a: Value) -> R {
    Ok(rec(vm, "t1_v", vec![observe(a)]))
}
fn t1_t(vm: &mut Vm<Host>, a: &CaoLangTable) -> R {
    Ok(rec(vm, "t1_t", vec![tobs(a)]))
}
fn t1_ni(vm: &mut Vm<Host>, a: Nilable<i64>) -> R {
    Ok(rec(vm, "t1_ni", vec![ni(a)]))
}
fn t1_ns(vm: &mut Vm<Host>, a: Nilable<&str>) -> R {
    Ok(rec(vm, "t1_ns", vec![ns(a)]))
}
fn t2_is(vm: &mut Vm<Host>, a: i64, b: &str) -> R {
    Ok(rec(vm, "t2_is", vec![Obs::Int(a), Obs::Str(b.to_string())]))
}
fn t2_vf(vm: &mut Vm<Host>, a: Value, b: f64) -> R {
    Ok(rec(vm, "t2_vf", vec![observe(a), fo(b)]))
}
fn t2_st(vm: &mut Vm<Host>, a: &str, b: &CaoLangTable) -> R {
    Ok(rec(vm, "t2_st", vec![Obs::Str(a.to_string()), tobs(b)]))
}
fn t3_isv(vm: &mut Vm<Host>, a: i64, b: &str, c: Value) -> R {
    Ok(rec(vm, "t3_isv", vec![Obs::Int(a), Obs::Str(b.to_string()), observe(c)]))
}
fn t3_vvv(vm: &mut Vm<Host>, a: Value, b: Value, c: Value) -> R {
    Ok(rec(vm, "t3_vvv", vec![observe(a), observe(b), observe(c)]))
}
fn t3_tni(vm: &mut Vm<Host>, a: &CaoLangTable, b: Nilable<i64>, c: bool) -> R {
    Ok(rec(vm, "t3_tni", vec![tobs(a), ni(b), Obs::Int(c as i64)]))
}
fn t4_ifsv(vm: &mut Vm<Host>, a: i64, b: f64, c: &str, d: Value) -> R {
    Ok(rec(vm, "t4_ifsv", vec![Obs::Int(a), fo(b), Obs::Str(c.to_string()), observe(d)]))
}
fn t4_vvvv(vm: &mut Vm<Host>, a: Value, b: Value, c: Value, d: Value) -> R {
    Ok(rec(vm, "t4_vvvv", vec![observe(a), observe(b), observe(c), observe(d)]))
}
fn t4_svts(vm: &mut Vm<Host>, a: &str, b: Value, c: &CaoLangTable, d: Nilable<&str>) -> R {
    Ok(rec(vm, "t4_svts", vec![Obs::Str(a.to_string()), observe(b), tobs(c), ns(d)]))
}
/// allocating native: returns a fresh string derived from its argument
fn t1_alloc(vm: &mut Vm<Host>, a: Value) -> R {
    let _ = rec(vm, "t1_alloc", vec![observe(a)]);
    let s = vm.init_string("fresh result")?;
    Ok(gval(&s))
}
/// failing native
fn t1_fail(vm: &mut Vm<Host>, a: Value) -> R {
    let _ = rec(vm, "t1_fail", vec![observe(a)]);
    Err(ExecutionErrorPayload::invalid_argument("typed stub failure"))
}

/// parameter kinds: i f b s v t I(Nilable<i64>) S(Nilable<&str>)
const TYPED: [(&str, &str); 19] = [
    ("t1_i", "i"), ("t1_f", "f"), ("t1_b", "b"), ("t1_s", "s"), ("t1_v", "v"), ("t1_t", "t"), ("t1_ni", "I"), ("t1_ns", "S"),
    ("t2_is", "is"), ("t2_vf", "vf"), ("t2_st", "st"), ("t3_isv", "isv"), ("t3_vvv", "vvv"), ("t3_tni", "tIb"),
    ("t4_ifsv", "ifsv"), ("t4_vvvv", "vvvv"), ("t4_svts", "svtS"), ("t1_alloc", "v"), ("t1_fail", "v"),
];

/// re-entering natives: measure the stacks around run_function
fn reenter_n(vm: &mut Vm<Host>, name: &str, f: Value, args: &[Value]) -> R {
    let all: Vec<Obs> = std::iter::once(observe(f)).chain(args.iter().map(|a| observe(*a))).collect();
    let _ = rec(vm, name, all);
    let ctl = vm.auxiliary_data.ctl.clone();
    let roots: Vec<Value> = std::iter::once(f).chain(args.iter().copied()).collect();
    ctl.host_enter(name, &roots);
    let h0 = vm.runtime_data.verif_stack_height();
    let d0 = vm.runtime_data.verif_call_depth();
    vm.auxiliary_data.reenter_depth += 1;
    if vm.auxiliary_data.reenter_depth > vm.auxiliary_data.max_reenter_depth {
        vm.auxiliary_data.max_reenter_depth = vm.auxiliary_data.reenter_depth;
    }
    let r = (|| -> R {
        for a in args {
            vm.stack_push(*a)?;
        }
        vm.run_function(f)
    })();
    vm.auxiliary_data.reenter_depth -= 1;
    let h1 = vm.runtime_data.verif_stack_height();
    let d1 = vm.runtime_data.verif_call_depth();
    // record the balance for the oracle
    vm.auxiliary_data.log.push(HostCall {
        name: format!("{name}:after"),
        args: vec![
            Obs::Int(h1 as i64 - h0 as i64),
            Obs::Int(d1 as i64 - d0 as i64),
            match &r {
                Ok(v) => observe(*v),
                Err(e) => Obs::Str(format!("Err:{}", crate::ctl::vmrun::error_kind(e))),
            },
        ],
        decision: String::new(),
        stack_height: h1,
        call_depth: d1,
        dispatches: ctl.counters().dispatches,
        allocs: ctl.counters().allocs,
    });
    ctl.host_exit();
    if name.starts_with("try") {
        // a host that survives the failure of its callback and carries on
        return Ok(r.unwrap_or(Value::Nil));
    }
    r
}
fn try0(vm: &mut Vm<Host>, f: Value) -> R {
    reenter_n(vm, "try0", f, &[])
}
fn try1(vm: &mut Vm<Host>, f: Value, a: Value) -> R {
    reenter_n(vm, "try1", f, &[a])
}
fn try2(vm: &mut Vm<Host>, f: Value, a: Value, b: Value) -> R {
    reenter_n(vm, "try2", f, &[a, b])
}
fn re0(vm: &mut Vm<Host>, f: Value) -> R {
    reenter_n(vm, "re0", f, &[])
}
fn re1(vm: &mut Vm<Host>, f: Value, a: Value) -> R {
    reenter_n(vm, "re1", f, &[a])
}
fn re2(vm: &mut Vm<Host>, f: Value, a: Value, b: Value) -> R {
    reenter_n(vm, "re2", f, &[a, b])
}
fn t0(vm: &mut Vm<Host>) -> R {
    Ok(rec(vm, "t0", vec![]))
}

fn register_typed(vm: &mut Vm<Host>) -> Result<(), ExecutionErrorPayload> {
    vm.register_native_function("t0", t0)?;
    vm.register_native_function("t1_i", into_f1(t1_i))?;
    vm.register_native_function("t1_f", into_f1(t1_f))?;
    vm.register_native_function("t1_b", into_f1(t1_b))?;
    vm.register_native_function("t1_s", into_f1(t1_s))?;
    vm.register_native_function("t1_v", into_f1(t1_v))?;
    vm.register_native_function("t1_t", into_f1(t1_t))?;
    vm.register_native_function("t1_ni", into_f1(t1_ni))?;
    vm.register_native_function("t1_ns", into_f1(t1_ns))?;
    vm.register_native_function("t2_is", into_f2(t2_is))?;
    vm.register_native_function("t2_vf", into_f2(t2_vf))?;
    vm.register_native_function("t2_st", into_f2(t2_st))?;
    vm.register_native_function("t3_isv", into_f3(t3_isv))?;
    vm.register_native_function("t3_vvv", into_f3(t3_vvv))?;
    vm.register_native_function("t3_tni", into_f3(t3_tni))?;
    vm.register_native_function("t4_ifsv", into_f4(t4_ifsv))?;
    vm.register_native_function("t4_vvvv", into_f4(t4_vvvv))?;
    vm.register_native_function("t4_svts", into_f4(t4_svts))?;
    vm.register_native_function("t1_alloc", into_f1(t1_alloc))?;
    vm.register_native_function("t1_fail", into_f1(t1_fail))?;
    vm.register_native_function("re0", into_f1(re0))?;
    vm.register_native_function("re1", into_f2(re1))?;
    vm.register_native_function("re2", into_f3(re2))?;
    vm.register_native_function("try0", into_f1(try0))?;
    vm.register_native_function("try1", into_f2(try1))?;
    vm.register_native_function("try2", into_f3(try2))?;
    Ok(())
}

// ---------------------------------------------------------------------------------------------
// workload

#[derive(Clone, Debug, Serialize, Deserialize, PartialEq)]
pub enum Arg {
    Nil,
    Int(i64),
    Real(f64),
    Str(String),
    /// table literal with these integer values (keys 0..n)
    Table(Vec<i64>),
    Func,
    NativeFunc,
    Closure,
}

impl Arg {
    fn card(&self) -> Card {
        match self {
            Arg::Nil => CardBody::ScalarNil.into(),
            Arg::Int(i) => Card::scalar_int(*i),
            Arg::Real(f) => CardBody::ScalarFloat(*f).into(),
            Arg::Str(s) => Card::string_card(s.clone()),
            Arg::Table(v) => Card::read_var(format!("tbl{}", v.len())),
            Arg::Func => CardBody::Function("cb_ret1".into()).into(),
            Arg::NativeFunc => CardBody::NativeFunction("t1_v".into()).into(),
            Arg::Closure => CardBody::Closure(Box::new(
                Function::default().with_arg("q").with_card(Card::return_card(Card::read_var("q"))),
            ))
            .into(),
        }
    }
    fn len(&self) -> i64 {
        match self {
            Arg::Str(s) => s.len() as i64,
            Arg::Table(v) => v.len() as i64,
            _ => 0,
        }
    }
    /// expected observation of the converted parameter, or None if the conversion must fail
    fn converted(&self, kind: char) -> Option<Obs> {
        Some(match kind {
            'i' => Obs::Int(match self {
                Arg::Nil => 0,
                Arg::Int(i) => *i,
                Arg::Real(f) => *f as i64,
                _ => self.len(),
            }),
            'f' => Obs::Real(
                match self {
                    Arg::Nil => 0.0,
                    Arg::Int(i) => *i as f64,
                    Arg::Real(f) => *f,
                    _ => self.len() as f64,
                }
                .to_bits(),
            ),
            'b' => Obs::Int(match self {
                Arg::Nil => 0,
                Arg::Int(i) => (*i != 0) as i64,
                Arg::Real(f) => (*f != 0.0) as i64,
                Arg::Str(s) => (!s.is_empty()) as i64,
                Arg::Table(v) => (!v.is_empty()) as i64,
                _ => 1,
            }),
            's' => match self {
                Arg::Str(s) => Obs::Str(s.clone()),
                _ => return None,
            },
            'v' => self.obs()?,
            't' => match self {
                Arg::Table(_) => self.obs()?,
                _ => return None,
            },
            'I' => match self {
                Arg::Nil => Obs::Nil,
                other => other.converted('i')?,
            },
            'S' => match self {
                Arg::Nil => Obs::Nil,
                other => other.converted('s')?,
            },
            _ => return None,
        })
    }
    /// expected observation of the raw value (None = function kinds: only the kind is compared)
    fn obs(&self) -> Option<Obs> {
        Some(match self {
            Arg::Nil => Obs::Nil,
            Arg::Int(i) => Obs::Int(*i),
            Arg::Real(f) => Obs::Real(f.to_bits()),
            Arg::Str(s) => Obs::Str(s.clone()),
            Arg::Table(v) => Obs::Table(v.iter().enumerate().map(|(i, x)| (Obs::Int(i as i64), Obs::Int(*x))).collect(), 0),
            Arg::Func | Arg::NativeFunc | Arg::Closure => return None,
        })
    }
    fn func_kind(&self) -> Option<&'static str> {
        match self {
            Arg::Func => Some("function"),
            Arg::NativeFunc => Some("native"),
            Arg::Closure => Some("closure"),
            _ => None,
        }
    }
}

fn gen_arg(rng: &mut Rng, prefer: char) -> Arg {
    // mostly convertible values, sometimes any kind
    let any = rng.chance(1, 4);
    let pick = if any { rng.below(8) } else { match prefer {
        's' | 'S' => 3,
        't' => 4,
        _ => rng.below(5),
    } };
    match pick {
        0 => Arg::Nil,
        1 => Arg::Int(*rng.pick(&[0i64, 1, -1, 42, i64::MAX, i64::MIN, 7])),
        2 => Arg::Real(*rng.pick(&[0.0f64, 1.5, -2.75, 1e18, -1e30, 3.0])),
        3 => Arg::Str(rng.pick(&["", "a", "hello world", "ünï"]).to_string()),
        4 => Arg::Table((0..rng.usize(4)).map(|i| i as i64 * 3 + 1).collect()),
        5 => Arg::Func,
        6 => Arg::NativeFunc,
        _ => Arg::Closure,
    }
}

#[derive(Clone, Debug, Serialize, Deserialize)]
pub struct TypedCall {
    pub native: String,
    pub kinds: String,
    pub args: Vec<Arg>,
    /// 0 = CallNative card, 1 = native function value + dynamic call
    pub path: u8,
}

#[derive(Clone, Debug, Serialize, Deserialize)]
pub enum Callee {
    /// script function returning its first / second parameter
    RetParam(usize),
    RetEarly,
    NoReturn,
    /// closure created in main capturing a local: returns captured + writes another captured
    ClosureCapture,
    /// the native function value t1_v
    NativeValue,
    /// fails through the t1_fail native
    Fails,
    /// loops forever (budget)
    Spins,
    /// re-enters through re1 twice more
    Deep,
    /// the native function value t1_s handed an integer: fails in the parameter conversion
    NativeBadArg,
    /// fails through the t1_fail native two script calls below the callee's own frame
    FailsDeep,
    /// declares n locals and one more, lets two closures that capture that last local escape into
    /// globals, then fails; the host swallows the failure and the caller calls the closures once
    /// its own locals live where the callee's did
    FailsLeaky(usize),
}

#[derive(Clone, Debug, Serialize, Deserialize)]
pub struct ReCase {
    pub callee: Callee,
    pub args: Vec<Arg>,
    /// the host function swallows an error of its callee and returns nil
    #[serde(default)]
    pub swallow: bool,
}

impl ReCase {
    fn stub(&self) -> &'static str {
        if self.swallow {
            ["try0", "try1", "try2"][self.args.len().min(2)]
        } else {
            ["re0", "re1", "re2"][self.args.len().min(2)]
        }
    }
}

#[derive(Clone, Debug, Serialize, Deserialize)]
pub struct Workload {
    pub pad: usize,
    pub depth: usize,
    pub typed: Vec<TypedCall>,
    pub reentry: Option<ReCase>,
    pub gc_every: bool,
    /// call-stack capacity (None: default 256). Tight values make the frames run_function needs
    /// the thing that fails.
    #[serde(default)]
    pub call_stack: Option<usize>,
}

fn gen_workload(rng: &mut Rng) -> Workload {
    let mut typed = vec![];
    let n = rng.usize(5);
    for _ in 0..n {
        let (name, kinds) = *rng.pick(&TYPED[..17]);
        let args: Vec<Arg> = kinds.chars().map(|k| gen_arg(rng, k)).collect();
        typed.push(TypedCall { native: name.to_string(), kinds: kinds.to_string(), args, path: rng.below(2) as u8 });
    }
    if rng.chance(1, 6) {
        typed.push(TypedCall { native: "t1_alloc".into(), kinds: "v".into(), args: vec![gen_arg(rng, 'v')], path: rng.below(2) as u8 });
    }
    if rng.chance(1, 6) {
        typed.push(TypedCall { native: "t0".into(), kinds: "".into(), args: vec![], path: rng.below(2) as u8 });
    }
    let reentry = if rng.chance(3, 5) {
        let callee = match rng.below(12) {
            11 => Callee::FailsLeaky(rng.usize(12)),
            10 => Callee::FailsDeep,
            0 => Callee::RetParam(0),
            1 => Callee::RetParam(1),
            2 => Callee::RetEarly,
            3 => Callee::NoReturn,
            4 => Callee::ClosureCapture,
            5 => Callee::NativeValue,
            6 => Callee::Fails,
            7 => Callee::Spins,
            8 => Callee::NativeBadArg,
            _ => Callee::Deep,
        };
        let nargs = match callee {
            Callee::RetParam(_) => 2,
            Callee::NativeValue | Callee::Deep | Callee::RetEarly | Callee::NativeBadArg => 1,
            Callee::ClosureCapture => 1,
            _ => rng.usize(3),
        };
        let args = (0..nargs).map(|_| gen_arg(rng, 'v')).filter(|a| a.func_kind().is_none()).collect::<Vec<_>>();
        let leaky = matches!(callee, Callee::FailsLeaky(_));
        Some(ReCase { callee, args: if leaky { vec![] } else { args }, swallow: leaky || rng.chance(1, 3) })
    } else {
        None
    };
    let depth = rng.usize(7);
    // with a re-entering host function: sometimes just enough / just not enough frames for it
    let call_stack = if reentry.is_some() && rng.chance(1, 5) { Some(depth + 1 + rng.usize(5)) } else { None };
    let mut w = Workload { pad: *rng.pick(&[0usize, 0, 1, 5, 40, 150]), depth, typed, reentry, gc_every: rng.chance(1, 2), call_stack };
    // arity of fixed-arity callees must match what was generated after filtering
    if let Some(rc) = &mut w.reentry {
        let want = match rc.callee {
            Callee::RetParam(_) => 2,
            Callee::NativeValue | Callee::Deep | Callee::RetEarly | Callee::ClosureCapture | Callee::NativeBadArg => 1,
            Callee::FailsLeaky(_) => 0,
            _ => rc.args.len(),
        };
        if matches!(rc.callee, Callee::NativeBadArg) {
            rc.args = vec![Arg::Int(7)];
        }
        while rc.args.len() < want {
            rc.args.push(Arg::Int(5 + rc.args.len() as i64));
        }
        rc.args.truncate(want.max(rc.args.len().min(2)));
        if matches!(rc.callee, Callee::FailsLeaky(_)) {
            rc.args.clear();
            rc.swallow = true;
        }
    }
    w
}

fn c(b: CardBody) -> Card {
    b.into()
}
fn bin(a: Card, b: Card) -> Box<[Card; 2]> {
    Box::new([a, b])
}

fn build_program(w: &Workload) -> Module {
    let mut m = Module::default();
    // the innermost function does the calls
    let mut inner = Function::default();
    let leaky = match w.reentry.as_ref().map(|r| &r.callee) {
        Some(Callee::FailsLeaky(n)) => Some(*n),
        _ => None,
    };
    if let Some(n) = leaky {
        // the callee runs (and fails) before the caller has declared a single local: the locals
        // declared below take the slots the dead callee's locals had
        let stub = w.reentry.as_ref().unwrap().stub();
        inner.cards.push(Card::set_global_var(
            "re_result",
            Card::call_native(stub, vec![c(CardBody::Function(format!("cb_leaky{n}")))]),
        ));
    }
    // tables used as arguments: tbl0..tbl3 with values 1,4,7,..
    for n in 0..4usize {
        inner.cards.push(Card::set_var(
            format!("tbl{n}"),
            c(CardBody::Array((0..n).map(|i| Card::scalar_int(i as i64 * 3 + 1)).collect())),
        ));
    }
    inner.cards.push(Card::set_var("keep_a", Card::scalar_int(11)));
    inner.cards.push(Card::set_var("keep_b", Card::string_card("keep")));
    inner.cards.push(Card::set_var("cap_w", Card::scalar_int(0)));
    inner.cards.push(Card::set_global_var("g_untouched", Card::scalar_int(77)));
    for (k, tc) in w.typed.iter().enumerate() {
        let args: Vec<Card> = tc.args.iter().map(|a| a.card()).collect();
        let call = if tc.path == 0 {
            Card::call_native(tc.native.clone(), args)
        } else {
            Card::dynamic_call(c(CardBody::NativeFunction(tc.native.clone())), args)
        };
        inner.cards.push(Card::set_global_var(format!("r{k}"), call));
    }
    if leaky.is_some() {
        // the closures the dead callee left behind: one assigns the captured variable, one reads it
        inner.cards.push(Card::set_global_var("leaky_set", Card::dynamic_call(Card::read_var("g_setter"), vec![])));
        inner.cards.push(Card::set_global_var("leaky_get", Card::dynamic_call(Card::read_var("g_getter"), vec![])));
    } else if let Some(rc) = &w.reentry {
        let callee_card: Card = match rc.callee {
            Callee::RetParam(i) => c(CardBody::Function(format!("cb_ret{}", i + 1))),
            Callee::RetEarly => c(CardBody::Function("cb_early".into())),
            Callee::NoReturn => c(CardBody::Function(format!("cb_noret{}", rc.args.len()))),
            Callee::ClosureCapture => c(CardBody::Closure(Box::new(
                Function::default().with_arg("x").with_cards(vec![
                    Card::set_var("cap_w", Card::read_var("x")),
                    Card::return_card(Card::read_var("keep_a")),
                ]),
            ))),
            Callee::NativeValue => c(CardBody::NativeFunction("t1_v".into())),
            Callee::Fails => c(CardBody::Function(format!("cb_fail{}", rc.args.len()))),
            Callee::FailsDeep => c(CardBody::Function(format!("cb_faildeep{}", rc.args.len()))),
            Callee::Spins => c(CardBody::Function(format!("cb_spin{}", rc.args.len()))),
            Callee::Deep => c(CardBody::Function("cb_deep".into())),
            Callee::NativeBadArg => c(CardBody::NativeFunction("t1_s".into())),
            Callee::FailsLeaky(_) => unreachable!(),
        };
        let mut args = vec![callee_card];
        args.extend(rc.args.iter().map(|a| a.card()));
        let stub = rc.stub();
        inner.cards.push(Card::set_global_var("re_result", Card::call_native(stub, args)));
    }
    inner.cards.push(Card::set_global_var("out_a", Card::read_var("keep_a")));
    inner.cards.push(Card::set_global_var("out_b", Card::read_var("keep_b")));
    inner.cards.push(Card::set_global_var("out_w", Card::read_var("cap_w")));
    inner.cards.push(Card::set_global_var("out_t", Card::read_var("tbl2")));
    inner.cards.push(Card::set_global_var("out_t0", Card::read_var("tbl0")));
    inner.cards.push(Card::set_global_var("out_t1", Card::read_var("tbl1")));
    inner.cards.push(Card::set_global_var("out_t3", Card::read_var("tbl3")));
    inner.cards.push(Card::return_card(Card::scalar_int(5)));
    // closures are created at any frame offset (fix 58b28ea made their captures frame-relative)
    let need_main = false;
    let depth = if need_main { 0 } else { w.depth };
    let mut main = Function::default();
    for i in 0..(if need_main { 0 } else { w.pad }) {
        main.cards.push(Card::set_var(format!("pad{i}"), Card::scalar_int(i as i64)));
    }
    if depth == 0 {
        let pads = std::mem::take(&mut main.cards);
        main.cards = pads;
        let mut body = inner.cards.clone();
        body.pop(); // no return from main
        main.cards.extend(body);
        main.cards.push(Card::set_global_var("chain", Card::scalar_int(5)));
    } else {
        main.cards.push(Card::set_global_var("chain", Card::call_function(format!("lvl{}", depth - 1), vec![Card::scalar_int(1)])));
    }
    m.functions.push(("main".into(), main));
    for d in 0..depth {
        let mut f = Function::default().with_arg("x");
        f.cards.push(Card::set_var("local", c(CardBody::Add(bin(Card::read_var("x"), Card::scalar_int(1))))));
        if d == 0 {
            f.cards.push(Card::return_card(Card::call_function("inner", vec![])));
        } else {
            f.cards.push(Card::return_card(Card::call_function(format!("lvl{}", d - 1), vec![Card::read_var("local")])));
        }
        m.functions.push((format!("lvl{d}"), f));
    }
    m.functions.push(("inner".into(), inner));
    // callees. Parameter binding: args are pushed left to right, declared parameters bind in
    // reverse push order: the FIRST declared parameter is the LAST pushed argument.
    m.functions.push((
        "cb_ret1".into(),
        Function::default().with_arg("p_last").with_arg("p_first").with_cards(vec![
            Card::set_global_var("seen1", Card::call_native("log", vec![Card::read_var("p_first")])),
            Card::set_global_var("seen2", Card::call_native("log", vec![Card::read_var("p_last")])),
            Card::return_card(Card::read_var("p_first")),
        ]),
    ));
    m.functions.push((
        "cb_ret2".into(),
        Function::default().with_arg("p_last").with_arg("p_first").with_cards(vec![
            Card::set_global_var("seen1", Card::call_native("log", vec![Card::read_var("p_first")])),
            Card::set_global_var("seen2", Card::call_native("log", vec![Card::read_var("p_last")])),
            Card::return_card(Card::read_var("p_last")),
        ]),
    ));
    m.functions.push((
        "cb_early".into(),
        Function::default().with_arg("p").with_cards(vec![
            Card::set_var("tmp", Card::string_card("temporary")),
            c(CardBody::IfTrue(bin(Card::scalar_int(1), Card::return_card(Card::scalar_int(42))))),
            Card::return_card(Card::scalar_int(43)),
        ]),
    ));
    for n in 0..3usize {
        let mut f = Function::default();
        let mut g = Function::default();
        let mut s = Function::default();
        for i in 0..n {
            f = f.with_arg(&format!("p{i}"));
            g = g.with_arg(&format!("p{i}"));
            s = s.with_arg(&format!("p{i}"));
        }
        f.cards.push(Card::set_var("tmp", Card::string_card("temporary")));
        f.cards.push(Card::set_global_var("noret_ran", Card::scalar_int(1)));
        m.functions.push((format!("cb_noret{n}"), f));
        g.cards.push(Card::set_var("tmp", Card::string_card("temporary")));
        g.cards.push(Card::set_global_var("x", Card::call_native("t1_fail", vec![Card::scalar_int(1)])));
        m.functions.push((format!("cb_fail{n}"), g));
        let mut gd = Function::default();
        for i in 0..n {
            gd = gd.with_arg(&format!("p{i}"));
        }
        gd.cards.push(Card::set_var("tmp", Card::string_card("temporary")));
        gd.cards.push(Card::set_global_var("y", Card::call_function("cb_failmid", vec![])));
        m.functions.push((format!("cb_faildeep{n}"), gd));
        s.cards.push(c(CardBody::While(Box::new([
            Card::scalar_int(1),
            Card::set_global_var("spin", Card::scalar_int(1)),
        ]))));
        m.functions.push((format!("cb_spin{n}"), s));
    }
    if let Some(n) = leaky {
        let mut f = Function::default();
        for i in 0..n {
            f.cards.push(Card::set_var(format!("fill{i}"), Card::scalar_int(500 + i as i64)));
        }
        f.cards.push(Card::set_var("captured", Card::scalar_int(1)));
        f.cards.push(Card::set_global_var(
            "g_setter",
            c(CardBody::Closure(Box::new(Function::default().with_cards(vec![Card::set_var("captured", Card::scalar_int(99))])))),
        ));
        f.cards.push(Card::set_global_var(
            "g_getter",
            c(CardBody::Closure(Box::new(Function::default().with_cards(vec![Card::return_card(Card::read_var("captured"))])))),
        ));
        f.cards.push(Card::set_global_var("x", Card::call_native("t1_fail", vec![Card::scalar_int(1)])));
        m.functions.push((format!("cb_leaky{n}"), f));
    }
    m.functions.push((
        "cb_failmid".into(),
        Function::default().with_cards(vec![
            Card::set_var("mid", Card::string_card("a local of the middle frame")),
            Card::return_card(Card::call_function("cb_fail0", vec![])),
        ]),
    ));
    m.functions.push((
        "cb_deep".into(),
        Function::default().with_arg("p").with_cards(vec![
            Card::set_var("tmp", Card::string_card("temporary")),
            Card::return_card(Card::call_native("re1", vec![c(CardBody::Function("cb_deep2".into())), Card::read_var("p")])),
        ]),
    ));
    m.functions.push((
        "cb_deep2".into(),
        Function::default().with_arg("p").with_cards(vec![Card::return_card(Card::call_native(
            "re1",
            vec![c(CardBody::Function("cb_early".into())), Card::read_var("p")],
        ))]),
    ));
    m
}

fn ctx_note_failed_imbalance(v: &mut Vec<(Json, String)>, callee_kind: &str, a: &HostCall) {
    v.push((
        json!({"inv": "failed-reentry-leaves-stacks-changed", "callee": callee_kind}),
        format!(
            "callee {callee_kind} failed ({}) under {}: run_function returned with the value stack changed by {:?} and the call stack by {:?}",
            a.args[2].short(), a.name, a.args[0], a.args[1]
        ),
    ));
}

fn obs_matches(expected: &Option<Obs>, kind: Option<&'static str>, got: &Obs) -> bool {
    match (expected, kind) {
        (Some(e), _) => e == got,
        (None, Some(k)) => matches!(got, Obs::Func { kind: gk, .. } if gk == k),
        _ => false,
    }
}

fn run_workload(w: &Workload) -> (Option<RunOut>, Vec<(Json, String)>) {
    let m = build_program(w);
    let mut v = vec![];
    let p = match compile_module(&m) {
        Compiled::Ok(p) => p,
        Compiled::Err(e) => {
            v.push((json!({"inv": "harness-program-does-not-compile"}), format!("{e}")));
            return (None, v);
        }
        Compiled::Panic(_) => return (None, v),
    };
    let spins = matches!(w.reentry.as_ref().map(|r| &r.callee), Some(Callee::Spins));
    let mut knobs = Knobs { budget: if spins { 3000 } else { 200_000 }, ..Default::default() };
    if let Some(cs) = w.call_stack {
        knobs.call_stack = cs;
    }
    let cfg = CtlConfig { gc: if w.gc_every { GcPlan::Every } else { GcPlan::Natural }, quarantine: w.gc_every, ..Default::default() };
    let ctl = VmCtl::new(cfg);
    ctl.install();
    let Some(mut vm) = new_vm(&ctl, &knobs, HostPlan::default()) else {
        VmCtl::uninstall();
        return (None, v);
    };
    // reserved names are refused, ordinary ones accepted
    if vm.register_native_function("__mine", into_f1(t1_v)).is_ok() {
        v.push((json!({"inv": "reserved-name-accepted"}), "register_native_function accepted a name starting with __".into()));
    }
    if let Err(e) = register_typed(&mut vm) {
        v.push((json!({"inv": "registration-failed"}), format!("registering an ordinary name failed: {e}")));
    }
    vm.auxiliary_data.ncalls = 0;
    let r = catch(|| vm.run(&p));
    let mut out = collect(&mut vm, &ctl, &p, r, true);
    teardown(vm, &ctl, &mut out);
    VmCtl::uninstall();
    for f in out.findings.iter() {
        if f.kind == "reachable-object-swept" || f.kind == "double-free-object" {
            v.push((json!({"inv": "memory-safety-in-host-call", "detail": f.kind}), f.what.clone()));
        }
    }
    if let Some(pn) = &out.panic {
        v.push((json!({"inv": "panic", "site": panic_site(pn)}), format!("panic: {} at {}", pn.msg, panic_site(pn))));
        return (Some(out), v);
    }
    // ---- a tight call stack: CallStackOverflow is a legitimate ending wherever it strikes; what is
    // judged then is only that every run_function that failed handed the stacks back
    let overflow_swallowed = out
        .host_log
        .iter()
        .any(|c| c.name.ends_with(":after") && matches!(&c.args[2], Obs::Str(s) if s.contains("CallStackOverflow")));
    if w.call_stack.is_some() && (innermost(&out.result) == "CallStackOverflow" || overflow_swallowed) {
        if let Some(rc) = &w.reentry {
            let callee_kind = format!("{:?}", rc.callee).split('(').next().unwrap_or("").to_string();
            for a in out.host_log.iter().filter(|c| c.name.ends_with(":after")) {
                let failed = matches!(&a.args[2], Obs::Str(s) if s.starts_with("Err:"));
                if failed && (a.args[0] != Obs::Int(0) || a.args[1] != Obs::Int(0)) {
                    ctx_note_failed_imbalance(&mut v, &callee_kind, a);
                    break;
                }
            }
        }
        return (Some(out), v);
    }
    // ---- oracle: typed calls in order
    let log: Vec<&HostCall> = out.host_log.iter().collect();
    let mut li = 0usize;
    // entries of the log that are not numbered host calls (the ":after" records)
    let mut unnumbered = 0usize;
    if matches!(w.reentry.as_ref().map(|r| &r.callee), Some(Callee::FailsLeaky(_))) {
        // the leaky callee ran first: the typed calls follow the record of its return
        match log.iter().position(|c| c.name.ends_with(":after")) {
            Some(i) => {
                li = i + 1;
                unnumbered = 1;
            }
            None => {
                v.push((json!({"inv": "reentry-not-observed"}), format!("the host function did not record its return (run ended with {})", out.result)));
                return (Some(out), v);
            }
        }
    }
    let mut failed_at: Option<(usize, String)> = None;
    for (k, tc) in w.typed.iter().enumerate() {
        let kinds: Vec<char> = tc.kinds.chars().collect();
        let expected: Vec<Option<Option<Obs>>> = tc.args.iter().zip(kinds.iter()).map(|(a, kd)| {
            if *kd == 'v' && a.func_kind().is_some() { Some(None) } else { a.converted(*kd).map(Some) }
        }).collect();
        let path = if tc.path == 0 { "call-native-card" } else { "native-value-dynamic-call" };
        if let Some(bad) = expected.iter().position(|e| e.is_none()) {
            // the call must fail with InvalidArgument naming a non-convertible parameter
            let bad_positions: Vec<usize> = expected.iter().enumerate().filter(|(_, e)| e.is_none()).map(|(i, _)| i + 1).collect();
            if out.result != format!("TaskFailure({}):InvalidArgument", tc.native) {
                v.push((
                    json!({"inv": "conversion-failure-not-reported", "path": path, "kind": kinds[bad].to_string()}),
                    format!("call #{k} {}({:?}): parameter {} is not convertible to '{}', expected TaskFailure({}):InvalidArgument, run ended with {}", tc.native, tc.args, bad + 1, kinds[bad], tc.native, out.result),
                ));
            } else if !bad_positions.iter().any(|p| out.error_msg.contains(&format!("#{p}:"))) {
                v.push((
                    json!({"inv": "conversion-error-names-wrong-parameter", "path": path}),
                    format!("call #{k} {}: non-convertible parameters {:?} but the message is '{}'", tc.native, bad_positions, out.error_msg),
                ));
            }
            failed_at = Some((k, tc.native.clone()));
            break;
        }
        // the stub must have been invoked with the converted parameters in declaration order
        let Some(call) = log.get(li) else {
            v.push((json!({"inv": "host-function-not-called", "path": path}), format!("call #{k} {} never reached the host (run ended with {})", tc.native, out.result)));
            break;
        };
        li += 1;
        if call.name != tc.native {
            v.push((json!({"inv": "wrong-host-function-called", "path": path}), format!("call #{k}: expected {} got {}", tc.native, call.name)));
            break;
        }
        for (pi, (e, got)) in expected.iter().zip(call.args.iter()).enumerate() {
            let e = e.as_ref().unwrap();
            if !obs_matches(e, tc.args[pi].func_kind(), got) {
                v.push((
                    json!({"inv": "parameter-mismatch", "path": path, "arity": kinds.len(), "position": pi + 1, "kind": kinds[pi].to_string()}),
                    format!("call #{k} {} parameter {} ('{}'): supplied {:?}, received {}", tc.native, pi + 1, kinds[pi], tc.args[pi], got.short()),
                ));
                break;
            }
        }
        if call.args.len() != expected.len() {
            v.push((json!({"inv": "parameter-count", "path": path}), format!("call #{k} {} received {} parameters", tc.native, call.args.len())));
        }
        // the returned value is the value of the call card
        let want_ret = if tc.native == "t1_alloc" { Obs::Str("fresh result".into()) } else { Obs::Int(1000 + (li as i64 - 1 - unnumbered as i64)) };
        if out.globals.get(&format!("r{k}")) != Some(&want_ret) && failed_at.is_none() {
            // only meaningful if the run got past this call
            if out.globals.contains_key(&format!("r{k}")) || out.result == "Ok" {
                v.push((
                    json!({"inv": "return-value-not-the-call-value", "path": path}),
                    format!("call #{k} {} returned {} but the call card evaluated to {:?}", tc.native, want_ret.short(), out.globals.get(&format!("r{k}")).map(|o| o.short())),
                ));
            }
        }
    }
    if failed_at.is_some() {
        return (Some(out), v);
    }
    // ---- oracle: re-entry
    if let Some(rc) = &w.reentry {
        let stub = rc.stub();
        let after: Vec<&&HostCall> = log.iter().filter(|c| c.name.ends_with(":after")).collect();
        let outer_after = after.iter().rev().find(|c| c.name == format!("{stub}:after") && c.call_depth == log.iter().find(|x| x.name == stub).map(|x| x.call_depth).unwrap_or(0));
        let callee_kind = format!("{:?}", rc.callee).split('(').next().unwrap_or("").to_string();
        // a swallowed callee failure is not an error of the run; a swallowed Timeout cannot buy
        // more instructions: the run still ends with Timeout
        let expect_err = match rc.callee {
            Callee::Fails | Callee::FailsDeep | Callee::NativeBadArg | Callee::FailsLeaky(_) if rc.swallow => None,
            Callee::FailsLeaky(_) => Some(format!("TaskFailure({stub}):TaskFailure(t1_fail):InvalidArgument")),
            Callee::FailsDeep => Some(format!("TaskFailure({stub}):TaskFailure(t1_fail):InvalidArgument")),
            Callee::NativeBadArg => Some(format!("TaskFailure({stub}):TaskFailure(t1_s):InvalidArgument")),
            Callee::Fails => Some(format!("TaskFailure({stub}):TaskFailure(t1_fail):InvalidArgument")),
            Callee::Spins => Some("Timeout".to_string()),
            _ => None,
        };
        // whatever the callee did, run_function hands the stacks back as they were
        for a in after.iter() {
            let failed = matches!(&a.args[2], Obs::Str(s) if s.starts_with("Err:"));
            if failed && (a.args[0] != Obs::Int(0) || a.args[1] != Obs::Int(0)) {
                ctx_note_failed_imbalance(&mut v, &callee_kind, a);
                break;
            }
        }
        match expect_err {
            Some(e) => {
                let ok = if e == "Timeout" { innermost(&out.result) == "Timeout" } else { out.result == e };
                if !ok {
                    v.push((
                        json!({"inv": "callee-error-not-propagated", "callee": callee_kind}),
                        format!("callee {callee_kind} via {stub}: expected the run to end with {e}, got {}", out.result),
                    ));
                }
            }
            None => {
                if out.result != "Ok" {
                    v.push((
                        json!({"inv": "reentry-run-failed", "callee": callee_kind}),
                        format!("callee {callee_kind} via {stub} with {:?}: run ended with {} ({})", rc.args, out.result, out.error_msg),
                    ));
                    return (Some(out), v);
                }
                // result handed back
                let want: Option<Obs> = match rc.callee {
                    Callee::RetParam(i) => rc.args.get(i).and_then(|a| a.obs()),
                    Callee::RetEarly | Callee::Deep => Some(Obs::Int(42)),
                    Callee::NoReturn => Some(Obs::Nil),
                    Callee::Fails | Callee::FailsDeep | Callee::NativeBadArg | Callee::FailsLeaky(_) => Some(Obs::Nil),
                    Callee::ClosureCapture => Some(Obs::Int(11)),
                    Callee::NativeValue => None, // t1_v returns 1000 + index: checked through balance only
                    _ => None,
                };
                if let Some(wv) = &want {
                    if out.globals.get("re_result") != Some(wv) {
                        v.push((
                            json!({"inv": "reentry-result", "callee": callee_kind}),
                            format!("callee {callee_kind} via {stub} with {:?}: expected result {} got {:?}", rc.args, wv.short(), out.globals.get("re_result").map(|o| o.short())),
                        ));
                    }
                }
                // parameters seen by the callee
                if let Callee::RetParam(_) = rc.callee {
                    let seen: Vec<&&HostCall> = log.iter().filter(|c| c.name == "log").collect();
                    let want1 = rc.args.first().and_then(|a| a.obs());
                    let want2 = rc.args.get(1).and_then(|a| a.obs());
                    if seen.len() < 2 || Some(&seen[0].args[0]) != want1.as_ref() || Some(&seen[1].args[0]) != want2.as_ref() {
                        v.push((
                            json!({"inv": "reentry-callee-parameters", "callee": callee_kind}),
                            format!("callee pushed {:?} but saw {:?}", rc.args, seen.iter().map(|s| s.args[0].short()).collect::<Vec<_>>()),
                        ));
                    }
                }
                if let Callee::FailsLeaky(_) = rc.callee {
                    // the closures share the variable they captured, and it is theirs alone now
                    if out.globals.get("leaky_get") != Some(&Obs::Int(99)) {
                        v.push((
                            json!({"inv": "reentry-escaped-closure-lost-its-variable", "callee": callee_kind}),
                            format!("a closure that escaped from the failed callee assigned 99 to its captured variable, its sibling reads {:?}", out.globals.get("leaky_get").map(|o| o.short())),
                        ));
                    }
                }
                if let Callee::ClosureCapture = rc.callee {
                    let want = rc.args.first().and_then(|a| a.obs());
                    if out.globals.get("out_w") != want.as_ref() {
                        v.push((
                            json!({"inv": "reentry-closure-write-lost", "callee": callee_kind}),
                            format!("closure wrote its parameter {:?} to a captured local, caller reads {:?}", rc.args.first(), out.globals.get("out_w").map(|o| o.short())),
                        ));
                    }
                }
                // balance measured by the stub around run_function
                match outer_after {
                    None => v.push((json!({"inv": "reentry-not-observed"}), format!("{stub} did not record its return"))),
                    Some(a) => {
                        if a.args[0] != Obs::Int(0) {
                            v.push((
                                json!({"inv": "reentry-stack-height", "callee": callee_kind}),
                                format!("callee {callee_kind}: value-stack height changed by {:?} across run_function (result already popped)", a.args[0]),
                            ));
                        }
                        if a.args[1] != Obs::Int(0) {
                            v.push((
                                json!({"inv": "reentry-call-depth", "callee": callee_kind}),
                                format!("callee {callee_kind}: call-stack depth changed by {:?} across run_function", a.args[1]),
                            ));
                        }
                    }
                }
                // every nested re-entry must be balanced too
                for a in after.iter() {
                    if a.args[0] != Obs::Int(0) || a.args[1] != Obs::Int(0) {
                        let sig = json!({"inv": "reentry-nested-imbalance", "callee": callee_kind});
                        if !v.iter().any(|(s, _)| s == &sig) && !v.iter().any(|(s, _)| s.get("inv").map(|i| i.as_str().unwrap_or("").starts_with("reentry-stack") || i.as_str().unwrap_or("").starts_with("reentry-call")).unwrap_or(false)) {
                            v.push((sig, format!("nested re-entry {} left height delta {:?}, depth delta {:?}", a.name, a.args[0], a.args[1])));
                        }
                    }
                }
                // caller's locals and untouched globals
                let locals_ok = out.globals.get("out_a") == Some(&Obs::Int(11))
                    && out.globals.get("out_b") == Some(&Obs::Str("keep".into()))
                    && out.globals.get("g_untouched") == Some(&Obs::Int(77))
                    && out.globals.get("out_t") == Arg::Table(vec![1, 4]).obs().as_ref()
                    && out.globals.get("out_t0") == Arg::Table(vec![]).obs().as_ref()
                    && out.globals.get("out_t1") == Arg::Table(vec![1]).obs().as_ref()
                    && out.globals.get("out_t3") == Arg::Table(vec![1, 4, 7]).obs().as_ref()
                    && (matches!(rc.callee, Callee::ClosureCapture) || out.globals.get("out_w") == Some(&Obs::Int(0)))
                    && out.globals.get("chain") == Some(&Obs::Int(5));
                if !locals_ok {
                    v.push((
                        json!({"inv": "reentry-caller-state", "callee": callee_kind}),
                        format!(
                            "after the host call the caller's variables are t0={:?} t1={:?} t3={:?} w={:?} a={:?} b={:?} untouched={:?} t={:?} chain={:?}",
                            out.globals.get("out_t0").map(|o| o.short()), out.globals.get("out_t1").map(|o| o.short()),
                            out.globals.get("out_t3").map(|o| o.short()), out.globals.get("out_w").map(|o| o.short()),
                            out.globals.get("out_a").map(|o| o.short()), out.globals.get("out_b").map(|o| o.short()),
                            out.globals.get("g_untouched").map(|o| o.short()), out.globals.get("out_t").map(|o| o.short()),
                            out.globals.get("chain").map(|o| o.short())
                        ),
                    ));
                }
            }
        }
    } else if out.result != "Ok" {
        v.push((json!({"inv": "run-failed"}), format!("all parameters convertible but the run ended with {} ({})", out.result, out.error_msg)));
    }
    (Some(out), v)
}

fn shrink_workload(w: &Workload, sig: &Json) -> Workload {
    let mut cur = w.clone();
    let fails = |c: &Workload| run_workload(c).1.iter().any(|(s, _)| s == sig);
    let mut i = cur.typed.len();
    while i > 0 {
        i -= 1;
        let mut cand = cur.clone();
        cand.typed.remove(i);
        if fails(&cand) {
            cur = cand;
        }
    }
    if cur.reentry.is_some() {
        let mut cand = cur.clone();
        cand.reentry = None;
        if fails(&cand) {
            cur = cand;
        }
    }
    for (pad, depth, gc) in [(0usize, 0usize, false), (0, cur.depth, cur.gc_every), (cur.pad, 0, cur.gc_every), (cur.pad, cur.depth, false)] {
        let mut cand = cur.clone();
        cand.pad = pad;
        cand.depth = depth;
        cand.gc_every = gc;
        if fails(&cand) {
            cur = cand;
        }
    }
    cur
}

impl Check for C18 {
    fn id(&self) -> &'static str {
        "C18"
    }
    fn level(&self) -> &'static str {
        "exploration"
    }
    fn rule(&self) -> String {
        "one case = one seeded workload: 0-5 calls of typed host stubs (19 stubs of arity 0-4 over i64, f64, bool, &str, Value, \
         table reference, Nilable<i64>, Nilable<&str>) with arguments of every value kind (mostly convertible, 1 in 4 arbitrary), \
         through the CallNative card or a native-function value + dynamic call, from call depth 0-6 and stack height 0-150; \
         optionally one re-entering host call (re0/re1/re2 -> run_function) whose callee is a script function returning a chosen \
         parameter / returning early / returning nothing, a closure capturing and writing caller locals, a native-function value, \
         a failing callee, a callee that spins until the budget expires, or a callee that re-enters twice more; half of the cases \
         with a collection at every allocation point. One re-entering call in three goes through a host function that swallows \
         its callee's failure (try0/1/2); callees also include a native value failing in its parameter conversion and a callee that lets closures over one \
         of its locals escape into globals and then fails (the caller declares its locals afterwards, in the slots the dead \
         callee used, and calls the closures); one case in \
         five with a call stack of depth+1..depth+5 frames. A case is non-trivial if a host stub ran; distinct = distinct workload hash."
            .to_string()
    }
    fn cases(&self, tier: Tier) -> u64 {
        match tier {
            Tier::Quick => 30_000,
            Tier::Thorough => 1_500_000,
        }
    }
    fn run_case(&self, ctx: &mut CaseCtx) {
        let mut wr = ctx.rng("workload");
        let w = gen_workload(&mut wr);
        let wv = serde_json::to_value(&w).unwrap();
        if ctx.case < 3 {
            ctx.sample = Some(json!({"workload": wv}));
        }
        ctx.progress("run");
        let (out, vs) = run_workload(&w);
        ctx.evaluation();
        if let Some(out) = &out {
            ctx.count("dispatches", out.counters.dispatches);
            ctx.count("host_calls", out.host_log.len() as u64);
            ctx.count("fault:collections_forced", out.counters.gcs_forced);
            if !out.host_log.is_empty() {
                ctx.nontrivial(crate::kernel::stable_hash_json(&wv));
            }
            ctx.count(&format!("reach:reenter_depth_{}", out.max_reenter_depth.min(4)), 1);
            if innermost(&out.result) == "InvalidArgument" {
                ctx.count("probe:conversion_rejected", 1);
            }
            if innermost(&out.result) == "Timeout" {
                ctx.count("fault:budget_expired_in_callee", 1);
            }
            if let Some(rc) = &w.reentry {
                let k = format!("{:?}", rc.callee).split('(').next().unwrap_or("").to_string();
                ctx.count(&format!("reach:callee:{k}"), 1);
            }
            for tc in w.typed.iter() {
                ctx.count(&format!("reach:path_{}", tc.path), 1);
            }
        }
        let _ = prng::mix(&[0]);
        for (sig, what) in vs {
            if ctx.violations.iter().any(|v| v.sig == sig) {
                continue;
            }
            ctx.violation(sig, what, json!({"workload": wv, "module": module_json(&build_program(&w))}));
        }
    }
    fn minimise(&self, replay: &Json, sig: &Json) -> Json {
        let Some(w) = replay.get("workload").and_then(|w| serde_json::from_value::<Workload>(w.clone()).ok()) else {
            return replay.clone();
        };
        let wm = shrink_workload(&w, sig);
        json!({"workload": wm, "module": module_json(&build_program(&wm))})
    }
    fn replay(&self, replay: &Json, ctx: &mut CaseCtx) {
        let Some(w) = replay.get("workload").and_then(|w| serde_json::from_value::<Workload>(w.clone()).ok()) else { return };
        ctx.progress("run");
        ctx.evaluation();
        for (sig, what) in run_workload(&w).1 {
            if !ctx.violations.iter().any(|v| v.sig == sig) {
                ctx.violation(sig, what, replay.clone());
            }
        }
    }
    fn assumptions(&self) -> Vec<String> {
        vec![
            "conversions as documented by the crate's TryFrom<Value> impls: i64 / f64 / bool / Value accept every kind (object -> its length, nil -> 0); &str and table references accept only strings resp. tables; Nilable<T> adds nil".into(),
            "when several parameters are non-convertible the error may name any of them".into(),
            "script parameters bind in reverse push order (first declared parameter = last pushed argument)".into(),
            "post-call state is only specified for a callee that returns normally".into(),
        ]
    }
    fn components(&self) -> Json {
        json!({"real": ["VmFunction wrappers (traits.rs)", "call_native / TaskFailure wrapping", "Vm::run_function", "compiler", "VM", "collector"],
               "stub": ["the host: 19 typed natives, 3 re-entering natives, log"]})
    }
    fn asan_flavour_share(&self) -> bool {
        true
    }
    fn required_probes(&self, _tier: Tier) -> Vec<String> {
        vec![
            "probe:conversion_rejected".into(),
            "fault:budget_expired_in_callee".into(),
            "reach:reenter_depth_3".into(),
            "reach:callee:ClosureCapture".into(),
            "reach:callee:NativeValue".into(),
            "reach:callee:Fails".into(),
            "reach:callee:FailsLeaky".into(),
            "reach:path_0".into(),
            "reach:path_1".into(),
            "fault:collections_forced".into(),
        ]
    }
}
