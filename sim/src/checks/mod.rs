pub mod c02;
pub mod c03;
pub mod c04;
pub mod c05;
pub mod c07;
pub mod c09;
pub mod c12;
pub mod c13;
pub mod c15;
pub mod c17;
pub mod c18;
pub mod selftest;
pub mod vmcommon;

use crate::kernel::Check;

pub fn registry() -> Vec<&'static dyn Check> {
    vec![&c02::C02, &c03::C03, &c04::C04, &c05::C05, &c07::C07, &c09::C09, &c12::C12, &c13::C13, &c15::C15, &c17::C17, &c18::C18, &selftest::SelfTest]
}

pub fn find(id: &str) -> Option<&'static dyn Check> {
    registry().into_iter().find(|c| c.id().eq_ignore_ascii_case(id))
}
