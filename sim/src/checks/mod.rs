pub mod c12;
pub mod c13;

use crate::kernel::Check;

pub fn registry() -> Vec<&'static dyn Check> {
    vec![&c12::C12, &c13::C13]
}

pub fn find(id: &str) -> Option<&'static dyn Check> {
    registry().into_iter().find(|c| c.id().eq_ignore_ascii_case(id))
}
