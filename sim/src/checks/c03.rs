//! C03 - The instruction budget bounds every run, so every run terminates.
//!
//! The clock of the VM is its instruction budget (seam S3). The controller counts every dispatch
//! of every nested `_run` activation (host re-entry, stdlib native callbacks) and unwinds the run
//! the moment the count passes the configured budget N, so an overrun is reported after N+1 steps.
//! Budgets are swept per program: every N in 1..=T+2 (T = instructions the program needs) up to a
//! cap, plus boundary values; non-terminating programs get small, medium and seeded budgets.
use super::vmcommon::*;
use crate::ctl::vmctl::{CtlConfig, GcPlan};
use crate::ctl::vmctl::VmCtl;
use crate::kernel::worker::catch;
use crate::ctl::vmrun::{collect, empty_out, innermost, new_vm, run_program, teardown, HostPlan, Knobs, RunOut};
use crate::gen::loops::{gen_loop_program, gen_shape};
use crate::gen::program::{gen_program, GenCfg};
use crate::kernel::{prng, CaseCtx, Check, Tier};
use cao_lang::compiler::Module;
use cao_lang::prelude::*;
use serde_json::{json, Value as Json};
use std::collections::BTreeSet;

pub struct C03;

const DRY_CAP: u64 = 30_000;

pub fn run_budget(p: &CaoCompiledProgram, n: u64, observer_cap: Option<u64>) -> RunOut {
    let knobs = Knobs { budget: n, ..Default::default() };
    let cfg = CtlConfig {
        gc: GcPlan::Natural,
        abort_after_dispatches: observer_cap,
        ..Default::default()
    };
    run_program(p, &knobs, cfg, HostPlan::default())
}

fn obs_equal(a: &RunOut, b: &RunOut) -> bool {
    a.result == b.result && a.globals == b.globals && a.host_log.len() == b.host_log.len()
        && a.host_log.iter().zip(b.host_log.iter()).all(|(x, y)| x.name == y.name && x.args == y.args)
}

/// check one budget; returns (signature, text) of a violation
fn check_budget(p: &CaoCompiledProgram, n: u64, t: Option<u64>, unbounded: Option<&RunOut>, ctx: &mut CaseCtx) -> Option<(Json, String)> {
    let out = run_budget(p, n, Some(n));
    ctx.evaluation();
    ctx.count("dispatches", out.counters.dispatches.min(n.saturating_add(1)));
    if out.aborted {
        let d = out.counters.timeout_depth;
        ctx.count("overruns_seen", 1);
        return Some((
            json!({"oracle": "overrun"}),
            format!("budget {n}: more than {n} instructions were dispatched (overrun detected in activation depth {d})"),
        ));
    }
    if let Some(p) = &out.panic {
        // the dry run of this program did not panic (such cases are discarded before the sweep):
        // a panic that appears under one particular budget is the budget changing the outcome
        ctx.count("panics_under_a_budget", 1);
        return Some((
            json!({"oracle": "budget-makes-the-run-panic"}),
            format!("budget {n}: the run panicked ({} at {}) although the same program runs to its end under the dry run's budget", p.msg, panic_site(p)),
        ));
    }
    let timed_out = innermost(&out.result) == "Timeout";
    if timed_out {
        ctx.count("fault:timeouts_fired", 1);
        ctx.count(&format!("reach:timeout_depth_{}", out.counters.max_depth.min(4)), 1);
        ctx.count(&format!("reach:timeout_before:{}", crate::ctl::vmctl::opcode_name(out.counters.last_op)), 1);
        if out.result != "Timeout" {
            ctx.count("probe:timeout_inside_native_callback", 1);
        }
        if out.host_swallowed > 0 {
            ctx.count("probe:timeout_after_host_swallowed_a_callee_failure", 1);
        }
    }
    match t {
        Some(t) => {
            if n < t && !timed_out {
                return Some((
                    json!({"oracle": "no-timeout-below-need"}),
                    format!("the program needs {t} instructions but a run with budget {n} ended with {} after {} dispatches", out.result, out.counters.dispatches),
                ));
            }
            if n > t {
                if let Some(u) = unbounded {
                    if !obs_equal(u, &out) {
                        return Some((
                            json!({"oracle": "sufficient-budget-changes-outcome"}),
                            format!("the program needs {t} instructions; with budget {n} the outcome is {} instead of {}", out.result, u.result),
                        ));
                    }
                }
            }
        }
        None => {
            if !timed_out {
                return Some((
                    json!({"oracle": "nonterminating-no-timeout"}),
                    format!("a program that does not terminate within {DRY_CAP} instructions ended with {} under budget {n}", out.result),
                ));
            }
        }
    }
    None
}

/// Several runs on ONE VM, run i under budget `budgets[i]` (set the way a host does, through
/// `max_instr`). Returns per run the outcome and the number of instructions it dispatched. The
/// controller stops a run the moment it dispatches more than min(budget, DRY_CAP) instructions.
fn run_history(p: &CaoCompiledProgram, budgets: &[u64]) -> Vec<(RunOut, u64)> {
    let ctl = VmCtl::new(CtlConfig { gc: GcPlan::Natural, ..Default::default() });
    ctl.install();
    let knobs = Knobs { budget: budgets.first().copied().unwrap_or(1), ..Default::default() };
    let Some(mut vm) = new_vm(&ctl, &knobs, HostPlan::default()) else {
        VmCtl::uninstall();
        return vec![];
    };
    let mut outs = vec![];
    for &n in budgets {
        let c0 = ctl.counters().dispatches;
        vm.max_instr = n;
        ctl.set_cfg(|cfg| cfg.abort_after_dispatches = Some(c0 + n.min(DRY_CAP)));
        vm.auxiliary_data.ncalls = 0;
        let r = catch(|| vm.run(p));
        let out = collect(&mut vm, &ctl, p, r, true);
        let d = out.counters.dispatches - c0;
        let stop = out.aborted || out.panic.is_some();
        outs.push((out, d));
        if stop {
            break;
        }
    }
    let mut last = empty_out();
    if let Some((o, _)) = outs.last() {
        last.aborted = o.aborted;
        last.panic = o.panic.clone();
    }
    teardown(vm, &ctl, &mut last);
    VmCtl::uninstall();
    outs
}

/// the budget a run gets is the one it was started with, whatever earlier runs on the same VM
/// used or left over: `budgets` against the reference history (same runs, no limit)
fn examine_history(ctx: &mut CaseCtx, p: &CaoCompiledProgram, budgets: Option<Vec<u64>>) -> Option<(Json, String, Vec<u64>)> {
    let runs = budgets.as_ref().map(|b| b.len()).unwrap_or(4).min(6);
    ctx.progress("history reference");
    let reference = run_history(p, &vec![1u64 << 40; runs]);
    ctx.evaluation();
    // the reference history must be clean: every run ends by itself within the cap
    let usable = reference.iter().take_while(|(o, _)| !o.aborted && o.panic.is_none()).count();
    if usable < 2 {
        ctx.count("history_discarded", 1);
        return None;
    }
    let budgets: Vec<u64> = match budgets {
        Some(b) => b.into_iter().take(usable).collect(),
        None => {
            let mut r = ctx.rng("history");
            (0..usable)
                .map(|i| {
                    let t = reference[i].1;
                    // the first run mostly finishes with budget to spare
                    let spare = if i == 0 { r.chance(3, 4) } else { r.chance(1, 2) };
                    let a = r.below(50);
                    let b = r.below(t.max(1));
                    if spare {
                        *r.pick(&[t + 1, t + 2 + a, 2 * t + 1, 10 * t + 1])
                    } else {
                        *r.pick(&[1, 2, (t / 2).max(1), t.saturating_sub(1).max(1), t.max(1), 1 + b])
                    }
                })
                .collect()
        }
    };
    ctx.progress(&format!("history budgets {budgets:?}"));
    let outs = run_history(p, &budgets);
    ctx.evaluation();
    ctx.count("histories_run", 1);
    // as long as every run so far had a sufficient budget the VM is in the reference's state
    let mut in_sync = true;
    for (i, (out, d)) in outs.iter().enumerate() {
        let n = budgets[i];
        let t = reference[i].1;
        ctx.count("dispatches", (*d).min(n.saturating_add(1)));
        let before: Vec<String> = (0..i).map(|j| format!("{} under budget {} ({} dispatched)", outs[j].0.result, budgets[j], outs[j].1)).collect();
        if out.aborted {
            return Some((
                json!({"oracle": "overrun", "vm": "reused"}),
                format!("run #{i} on a reused VM, budget {n}: more than {n} instructions were dispatched; earlier runs on this VM: {before:?}"),
                budgets,
            ));
        }
        if out.panic.is_some() {
            if in_sync {
                return Some((
                    json!({"oracle": "budget-makes-the-run-panic", "vm": "reused"}),
                    format!("run #{i} on a reused VM, budget {n}: the run panicked; the same history without limits does not; earlier runs: {before:?}"),
                    budgets,
                ));
            }
            break;
        }
        if !in_sync {
            ctx.count("history_runs_judged_by_the_bound_only", 1);
            continue;
        }
        let timed_out = innermost(&out.result) == "Timeout";
        if timed_out {
            ctx.count("fault:timeouts_fired", 1);
        }
        if n < t && !timed_out {
            return Some((
                json!({"oracle": "no-timeout-below-need", "vm": "reused"}),
                format!("run #{i} on a reused VM needs {t} instructions, with budget {n} it ended with {} after {d} dispatches; earlier runs: {before:?}", out.result),
                budgets,
            ));
        }
        if n > t {
            if !obs_equal(&reference[i].0, out) {
                return Some((
                    json!({"oracle": "sufficient-budget-changes-outcome", "vm": "reused"}),
                    format!("run #{i} on a reused VM needs {t} instructions; with budget {n} the outcome is {} instead of {}; earlier runs: {before:?}", out.result, reference[i].0.result),
                    budgets,
                ));
            }
            ctx.count("probe:history_run_after_a_run_with_budget_to_spare", (i > 0) as u64);
        } else {
            // stopped early (or exactly at the edge): from here on the VM's state is its own
            in_sync = n == t && obs_equal(&reference[i].0, out);
        }
    }
    None
}

fn budgets_for(t: Option<u64>, cap: u64, rng: &mut crate::kernel::Rng) -> Vec<u64> {
    let mut s = BTreeSet::new();
    match t {
        Some(t) => {
            if t + 2 <= cap {
                for n in 1..=t + 2 {
                    s.insert(n);
                }
            } else {
                for n in 1..=16 {
                    s.insert(n);
                }
                while (s.len() as u64) < cap {
                    s.insert(1 + rng.below(t + 2));
                }
            }
            // ... and "no limit" spelled as the largest budget there is
            for n in [t.saturating_sub(1).max(1), t.max(1), t + 1, 2 * t + 1, 10 * t + 1, u64::MAX - 1, u64::MAX] {
                s.insert(n);
            }
        }
        None => {
            for n in [1u64, 2, 3, 5, 10, 33, 100, 1000, 10_000] {
                s.insert(n);
            }
            for _ in 0..8 {
                s.insert(1 + rng.below(5000));
            }
        }
    }
    s.into_iter().collect()
}

fn gen_case(ctx: &CaseCtx) -> (Module, Json) {
    let mut wr = ctx.rng("workload");
    if wr.chance(3, 5) {
        let shape = gen_shape(&mut wr);
        let desc = json!({"kind": "G-loop", "via": shape.via, "infinite": shape.infinite, "work": shape.work, "entries": shape.entries});
        (gen_loop_program(&shape), desc)
    } else {
        let mut cfg = GenCfg::swarm(&mut wr);
        cfg.host_reentry = true;
        cfg.stdlib = true;
        (gen_program(&mut wr, &cfg), json!({"kind": "G-alloc"}))
    }
}

/// `history`: None = the sweep, plus a seeded history for one case in three; Some(b) = only the
/// history with these budgets (replay)
fn examine(ctx: &mut CaseCtx, module: &Module, only_budget: Option<u64>, history: Option<Vec<u64>>) -> Vec<(Json, String, u64, Option<Vec<u64>>)> {
    let mut found = vec![];
    let Compiled::Ok(p) = compile_module(module) else {
        ctx.count("discarded_compile", 1);
        return found;
    };
    if let Some(b) = history {
        if let Some((sig, what, b)) = examine_history(ctx, &p, Some(b)) {
            found.push((sig, what, 0, Some(b)));
        }
        return found;
    }
    ctx.progress("run dry");
    let dry = run_budget(&p, 1 << 40, Some(DRY_CAP));
    ctx.evaluation();
    if dry.panic.is_some() {
        ctx.count("discarded_baseline_panic", 1);
        return found;
    }
    let t = if dry.aborted { None } else { Some(dry.counters.dispatches) };
    match t {
        Some(t) => {
            ctx.count("programs_terminating", 1);
            ctx.max("instructions_needed", t);
            ctx.count(&format!("reach:nesting_depth_{}", dry.counters.max_depth.min(4)), 1);
        }
        None => ctx.count("programs_nonterminating", 1),
    }
    let cap = match ctx.tier {
        Tier::Quick => 120,
        Tier::Thorough => 600,
    };
    let mut sr = ctx.rng("schedule");
    let budgets = match only_budget {
        Some(n) => vec![n],
        None => budgets_for(t, cap, &mut sr),
    };
    let phash = crate::kernel::stable_hash_json(&module_json(module));
    for n in budgets {
        ctx.progress(&format!("run budget {n}"));
        if let Some((sig, what)) = check_budget(&p, n, t, if dry.aborted { None } else { Some(&dry) }, ctx) {
            if !found.iter().any(|(s, _, _, _): &(Json, String, u64, Option<Vec<u64>>)| s == &sig) {
                found.push((sig, what, n, None));
            }
        }
        ctx.nontrivial(prng::mix(&[phash, n]));
    }
    // the same budgets on a VM with a past
    if only_budget.is_none() && matches!(t, Some(t) if t <= 2500) && sr.chance(1, 3) {
        if let Some((sig, what, b)) = examine_history(ctx, &p, None) {
            found.push((sig, what, 0, Some(b)));
        }
    }
    found
}

impl Check for C03 {
    fn id(&self) -> &'static str {
        "C03"
    }
    fn level(&self) -> &'static str {
        "fault_enumeration"
    }
    fn rule(&self) -> String {
        "one case = one seeded program: either a G-loop program (busy work and/or an endless loop reached through 1-3 levels of \
         host re-entry (call0 stub called by card or as a native function value, try0 stub that swallows the callee's failure), __sort/__min key functions, std.map callbacks or plain calls) or a G-alloc program with \
         host re-entry and stdlib callbacks. T = instructions it needs (dry run). The budget N is then swept: every N in \
         1..=T+2 (seeded subset above a per-tier cap) plus T-1, T, T+1, 2T+1, 10T+1, u64::MAX-1, u64::MAX; fixed and seeded budgets for \
         non-terminating programs. For one terminating program in three the budgets are also tried on a VM with a past: 2-4 runs \
         on one VM, each under its own budget (spare, short, exact), judged against the same history run without limits - every run \
         is bounded by its own budget whatever earlier runs used or left over, and while all earlier runs had enough budget the \
         outcome of a run with enough budget is the reference's. Every dispatch of every nested activation is counted by the controller. A run is \
         non-trivial if it was executed under a finite budget; distinct = distinct (program hash, N)."
            .to_string()
    }
    fn cases(&self, tier: Tier) -> u64 {
        match tier {
            Tier::Quick => 8000,
            Tier::Thorough => 150_000,
        }
    }
    fn run_case(&self, ctx: &mut CaseCtx) {
        let (module, desc) = gen_case(ctx);
        if ctx.case < 3 {
            ctx.sample = Some(json!({"workload": desc, "module": module_json(&module)}));
        }
        let found = examine(ctx, &module, None, None);
        for (sig, what, n, h) in found {
            ctx.violation(sig, what, json!({"module": module_json(&module), "budget": n, "history": h, "cards": count_cards(&module)}));
        }
    }
    fn minimise(&self, replay: &Json, sig: &Json) -> Json {
        let Some(module) = replay.get("module").and_then(module_from_json) else { return replay.clone() };
        let n = replay.get("budget").and_then(|b| b.as_u64()).unwrap_or(1);
        let history: Option<Vec<u64>> = replay.get("history").and_then(|h| serde_json::from_value(h.clone()).ok()).flatten();
        let quiet = || {
            let mut c2 = CaseCtx::new("C03", 1, 0, Tier::Quick);
            c2.progress_enabled = false;
            c2
        };
        // keep the same oracle failing at any budget of the sweep
        if history.is_some() {
            // keep the same oracle failing under the same budgets
            let mm = shrink_module(&module, 60, |cand| examine(&mut quiet(), cand, None, history.clone()).iter().any(|(s, _, _, _)| s == sig));
            return json!({"module": module_json(&mm), "budget": n, "history": history, "cards": count_cards(&mm)});
        }
        let sweep = |cand: &Module| -> Vec<(Json, String, u64, Option<Vec<u64>>)> { examine(&mut quiet(), cand, None, None).into_iter().filter(|f| f.3.is_none()).collect() };
        let mm = shrink_module(&module, 60, |cand| sweep(cand).iter().any(|(s, _, _, _)| s == sig));
        let n2 = sweep(&mm).into_iter().find(|(s, _, _, _)| s == sig).map(|x| x.2).unwrap_or(n);
        json!({"module": module_json(&mm), "budget": n2, "cards": count_cards(&mm)})
    }
    fn replay(&self, replay: &Json, ctx: &mut CaseCtx) {
        let Some(m) = replay.get("module").and_then(module_from_json) else { return };
        let n = replay.get("budget").and_then(|b| b.as_u64());
        let history: Option<Vec<u64>> = replay.get("history").and_then(|h| serde_json::from_value(h.clone()).ok()).flatten();
        for (sig, what, _, _) in examine(ctx, &m, n, history) {
            ctx.violation(sig, what, replay.clone());
        }
    }
    fn assumptions(&self) -> Vec<String> {
        vec![
            "budget N >= 1 (N = 0 belongs to C04)".into(),
            "a run with budget N may stop with Timeout for any N <= T; only N < T must time out and only N > T must be unaffected (N == T may go either way)".into(),
            "Timeout may surface wrapped in TaskFailure when the budget expires inside a native's callback".into(),
            "programs whose dry run does not finish within 30000 instructions are treated as non-terminating".into(),
        ]
    }
    fn components(&self) -> Json {
        json!({"real": ["compiler", "VM dispatch loop incl. run_function re-entry", "stdlib cards and natives (__sort/__min/__max)"],
               "stub": ["host natives call0/call1/call2/log/... (the simulated host)"]})
    }
    fn required_probes(&self, _tier: Tier) -> Vec<String> {
        vec![
            "fault:timeouts_fired".into(),
            "probe:timeout_inside_native_callback".into(),
            "probe:timeout_after_host_swallowed_a_callee_failure".into(),
            "programs_nonterminating".into(),
            "histories_run".into(),
            "probe:history_run_after_a_run_with_budget_to_spare".into(),
            "reach:nesting_depth_2".into(),
            "reach:nesting_depth_3".into(),
        ]
    }
}
