//! C02 - Garbage collection never invalidates a value the program can still use.
//!
//! Workload: G-alloc programs. Schedule space (seam S1): a collection forced - through the
//! production threshold branch - at every allocation point, at each single allocation point
//! (exhaustive per program up to a cap), at every k-th, at seeded random subsets; plus the natural
//! schedule under a small real limit.
//! Oracles: heap audits A1 (right after each collection) and A2 (next instruction boundary, host
//! return, run end) over a quarantine of swept objects; observation equal to the collection-free
//! run; same again with real frees for schedules whose audits passed.
use super::vmcommon::*;
use crate::ctl::vmctl::GcPlan;
use crate::ctl::vmrun::{run_program, HostPlan, RunOut};
use crate::gen::program::{gen_program, GenCfg};
use crate::kernel::{prng, CaseCtx, Check, Tier};
use cao_lang::compiler::Module;
use cao_lang::prelude::*;
use serde_json::{json, Value as Json};
use std::collections::BTreeSet;

pub struct C02;

const DRY_BUDGET: u64 = 60_000;

fn first_obs_diff(a: &RunOut, b: &RunOut) -> Option<(String, String)> {
    if a.result != b.result {
        return Some(("result".into(), format!("{} vs {}", a.result, b.result)));
    }
    if a.globals != b.globals {
        for (k, v) in a.globals.iter() {
            match b.globals.get(k) {
                Some(w) if w == v => {}
                Some(w) => return Some(("global".into(), format!("{k}: {} vs {}", v.short(), w.short()))),
                None => return Some(("global".into(), format!("{k}: present vs absent"))),
            }
        }
        return Some(("global".into(), "different sets of globals".into()));
    }
    if a.host_log.len() != b.host_log.len() {
        return Some(("host-log".into(), format!("{} vs {} host calls", a.host_log.len(), b.host_log.len())));
    }
    for (x, y) in a.host_log.iter().zip(b.host_log.iter()) {
        if x.name != y.name || x.args != y.args {
            return Some(("host-log".into(), format!("{}({:?}) vs {}({:?})", x.name, x.args.len(), y.name, y.args.len())));
        }
    }
    None
}

/// The reference run keeps the memory limit out of reach (its swept memory is quarantined, so the
/// accounting means nothing). A run under the real limit may therefore end with OutOfMemory where
/// the reference went on - legitimately, if the reference itself needed more than that limit.
fn legit_oom(base: &RunOut, out: &RunOut) -> bool {
    crate::ctl::vmrun::innermost(&out.result) == "OutOfMemory"
        && out.enforced_mem_limit.map(|l| base.counters.peak_allocated > l).unwrap_or(false)
}

/// the C02-relevant violations of one run: (signature, text)
fn c02_violations(base: &RunOut, out: &RunOut) -> Vec<(Json, String)> {
    let mut v = vec![];
    for f in out.findings.iter() {
        if f.kind == "reachable-object-swept" || f.kind == "double-free-object" {
            v.push((f.sig.clone(), f.what.clone()));
        }
    }
    if let Some(p) = &out.panic {
        if base.panic.is_none() {
            v.push((
                json!({"inv": "panic-under-collection", "site": panic_site(p)}),
                format!("panic under this collector schedule (none without collections): {} at {}", p.msg, panic_site(p)),
            ));
        }
    } else if v.is_empty()
        && base.panic.is_none()
        && out.completed()
        // a reference run that exhausted the memory limit is no reference: see run_case
        && crate::ctl::vmrun::innermost(&base.result) != "OutOfMemory"
        && !legit_oom(base, out)
    {
        if let Some((comp, detail)) = first_obs_diff(base, out) {
            v.push((
                json!({"inv": "observation-differs", "component": comp}),
                format!("observable outcome differs from the collection-free run: {detail}"),
            ));
        }
    }
    v
}

pub fn run_sched(program: &CaoCompiledProgram, s: &Schedule) -> RunOut {
    run_program(program, &s.knobs, s.cfg(), s.host.clone())
}

fn base_schedule() -> Schedule {
    let mut s = Schedule::new(GcPlan::Never, true);
    s.knobs.budget = DRY_BUDGET;
    s
}

fn record_reach(ctx: &mut CaseCtx, out: &RunOut) {
    let c = &out.counters;
    ctx.count("dispatches", c.dispatches);
    ctx.count("fault:collections_forced", c.gcs_forced);
    ctx.count("fault:collections_natural", c.gcs - c.gcs_forced.min(c.gcs));
    ctx.count("objects_swept", c.swept);
    ctx.count("audits", c.audits);
    for (site, n) in c.gc_sites.iter() {
        ctx.count(&format!("reach:gc_in:{site}"), *n);
    }
    ctx.count("probe:gc_with_open_upvalue", c.gc_with_open_upvalue);
    ctx.count("probe:gc_with_closure_frame_active", c.gc_with_closure_frame);
    ctx.count("probe:gc_in_nested_activation", c.gc_in_nested_activation);
    ctx.count("probe:gc_with_live_guard", c.gc_with_guard);
    ctx.count("probe:dangling_open_upvalue_seen", c.dangling_open_upvalue);
}

/// does (m, sc) show `sig`? For single-point schedules the point is searched again (removing
/// cards shifts allocation indices). Returns the schedule that reproduces.
fn reproduces(m: &Module, sc: &Schedule, sig: &Json) -> Option<Schedule> {
    let Compiled::Ok(p) = compile_module(m) else { return None };
    let base = run_sched(&p, &base_schedule_like(sc));
    if base.panic.is_some() || base.aborted {
        return None;
    }
    let out = run_sched(&p, sc);
    if c02_violations(&base, &out).iter().any(|(x, _)| x == sig) {
        return Some(sc.clone());
    }
    if let GcPlan::At(set) = &sc.gc {
        if set.len() == 1 {
            for i in 0..base.counters.allocs.min(300) {
                let mut s2 = sc.clone();
                s2.gc = GcPlan::At([i].into_iter().collect());
                let out = run_sched(&p, &s2);
                if c02_violations(&base, &out).iter().any(|(x, _)| x == sig) {
                    return Some(s2);
                }
            }
        }
    }
    None
}

fn minimise(m: &Module, s: &Schedule, sig: &Json) -> (Module, Schedule) {
    // 1. schedule: drop decisions while the same violation persists
    let mut sched = s.clone();
    if let GcPlan::At(set) = &s.gc {
        let mut cur: BTreeSet<u64> = set.clone();
        for x in set.iter() {
            if cur.len() <= 1 {
                break;
            }
            let mut cand = cur.clone();
            cand.remove(x);
            let mut sc = sched.clone();
            sc.gc = GcPlan::At(cand.clone());
            if reproduces(m, &sc, sig).is_some() {
                cur = cand;
            }
        }
        sched.gc = GcPlan::At(cur);
    }
    // 2. workload (the schedule follows the shifting allocation indices)
    let best = std::cell::RefCell::new(sched.clone());
    let m2 = shrink_module(m, 120, |cand| {
        let sc = best.borrow().clone();
        match reproduces(cand, &sc, sig) {
            Some(s2) => {
                *best.borrow_mut() = s2;
                true
            }
            None => false,
        }
    });
    let sched = best.into_inner();
    (m2, sched)
}

fn base_schedule_like(s: &Schedule) -> Schedule {
    let mut b = s.clone();
    // the injected host behaviour and allocation failure (if any) belong to the scenario: the
    // reference differs in the collector schedule only
    b.gc = GcPlan::Never;
    b.quarantine = true;
    b
}

fn report(ctx: &mut CaseCtx, m: &Module, s: &Schedule, sig: Json, what: String) {
    // one report per signature and case; minimisation happens in the driver (Check::minimise)
    if ctx.violations.iter().any(|v| v.sig == sig) {
        return;
    }
    ctx.violation(sig, what, json!({"module": module_json(m), "schedule": s.to_json(), "cards": count_cards(m)}));
}

impl Check for C02 {
    fn id(&self) -> &'static str {
        "C02"
    }
    fn level(&self) -> &'static str {
        "exploration"
    }
    fn rule(&self) -> String {
        "one case = one seeded G-alloc program (strings, tables, rows, closures with captured variables, function values, \
         stdlib calls with script callbacks, allocating / re-entering host stubs); it is run without collections and then under \
         collector schedules decided by the simulator through the production threshold branch: every allocation point, each \
         single allocation point (all of them up to a per-tier cap), every k-th, seeded random subsets, and the natural \
         schedule under small limits; then the same injected fault (a host call failing / returning nil, a failing \
         allocation) with and without collections. Stack sizes are seeded per case. The programs include long tables sorted by \
         fresh keys, closures suspended under nested calls, multi-byte strings and tables that are changed while they are keys. \
         A run is non-trivial if at least one collection actually ran; distinct = distinct (program hash, schedule hash)."
            .to_string()
    }
    fn cases(&self, tier: Tier) -> u64 {
        match tier {
            Tier::Quick => 10_000,
            Tier::Thorough => 400_000,
        }
    }
    fn run_case(&self, ctx: &mut CaseCtx) {
        let mut wr = ctx.rng("workload");
        let cfg = GenCfg::swarm(&mut wr);
        let module = gen_program(&mut wr, &cfg);
        let mj = module_json(&module);
        let phash = crate::kernel::stable_hash_json(&mj);
        if let Some(dir) = std::env::var_os("CAOSIM_DUMP") {
            let _ = std::fs::write(std::path::Path::new(&dir).join(format!("C02-{}.json", ctx.case)), serde_json::to_string(&mj).unwrap());
        }
        ctx.progress("compile");
        let program = match compile_module(&module) {
            Compiled::Ok(p) => p,
            Compiled::Err(_) => {
                ctx.count("discarded_compile_error", 1);
                return;
            }
            Compiled::Panic(_) => {
                ctx.count("discarded_compile_panic", 1);
                return;
            }
        };
        ctx.progress("run dry");
        // the resource knobs are part of the seeded configuration (the same for the reference run
        // and every schedule): small stacks turn deep programs into Stackoverflow /
        // CallStackOverflow runs, whose unwinding must not depend on collections either
        let mut kr = ctx.rng("knobs");
        let mut base_s = base_schedule();
        base_s.knobs.value_stack = *kr.pick(&[256usize, 256, 256, 64, 24]);
        base_s.knobs.call_stack = *kr.pick(&[256usize, 256, 256, 16, 6]);
        let base = run_sched(&program, &base_s);
        ctx.evaluation();
        if base.panic.is_some() || base.aborted {
            ctx.count("discarded_baseline_crash", 1);
            return;
        }
        if crate::ctl::vmrun::innermost(&base.result) == "Timeout" {
            ctx.count("discarded_baseline_timeout", 1);
            return;
        }
        if base.counters.allocs > 20_000 {
            // collecting at every one of that many allocation points costs minutes of CPU
            ctx.count("discarded_too_many_allocation_points", 1);
            return;
        }
        if crate::ctl::vmrun::innermost(&base.result) == "OutOfMemory" {
            // the collection-free reference run exhausted the memory limit: where it stops depends
            // on the placement of collections by definition (C05's business, not C02's)
            ctx.count("discarded_baseline_out_of_memory", 1);
            return;
        }
        ctx.count(&format!("baseline_result:{}", crate::ctl::vmrun::innermost(&base.result)), 1);
        let a = base.counters.allocs;
        ctx.count("allocation_points", a);
        ctx.max("allocation_points_per_program", a);
        if ctx.case < 2 {
            ctx.sample = Some(json!({"module": mj, "allocation_points": a, "dispatches": base.counters.dispatches,
                "schedules": "never; every; each single point; every k-th; random subsets; natural under small limits"}));
        }
        if a == 0 {
            return;
        }
        // schedules
        let mut sr = ctx.rng("schedule");
        let mut plans: Vec<GcPlan> = vec![GcPlan::Every];
        let cap = match ctx.tier {
            Tier::Quick => 60,
            Tier::Thorough => 400,
        };
        if a <= cap {
            for i in 0..a {
                plans.push(GcPlan::At([i].into_iter().collect()));
            }
        } else {
            let mut picked = BTreeSet::new();
            while (picked.len() as u64) < cap {
                picked.insert(sr.below(a));
            }
            for i in picked {
                plans.push(GcPlan::At([i].into_iter().collect()));
            }
        }
        for _ in 0..2 {
            let k = 2 + sr.below(6);
            plans.push(GcPlan::EveryKth(k, sr.below(k)));
        }
        for (num, den) in [(1u64, 50u64), (1, 10), (1, 2)] {
            let set: BTreeSet<u64> = (0..a).filter(|_| sr.chance(num, den)).collect();
            if !set.is_empty() {
                plans.push(GcPlan::At(set));
            }
        }
        let mut all_audits_passed = true;
        for (pi, plan) in plans.iter().enumerate() {
            let mut s = base_s.clone();
            s.gc = plan.clone();
            ctx.progress(&format!("run sched {pi}"));
            let out = run_sched(&program, &s);
            ctx.evaluation();
            record_reach(ctx, &out);
            if out.counters.gcs > 0 {
                ctx.nontrivial(prng::mix(&[phash, s.hash()]));
            }
            let vs = c02_violations(&base, &out);
            if !vs.is_empty() {
                all_audits_passed = false;
            }
            for (sig, what) in vs {
                report(ctx, &module, &s, sig, what);
            }
        }
        // the same injected fault with and without collections: error paths (a host function that
        // fails or returns nil at its k-th call, an allocation that fails) unwind through natives
        // and guards; the collector must not care
        if all_audits_passed {
            let ncalls = base.host_log.len() as u64;
            let mut faulty: Vec<Schedule> = vec![];
            for _ in 0..3 {
                if ncalls > 0 {
                    let mut s = base_s.clone();
                    let d = if sr.chance(2, 3) { crate::ctl::vmrun::HostDecision::Fail } else { crate::ctl::vmrun::HostDecision::ReturnNil };
                    s.host = HostPlan { at: [(sr.below(ncalls), d)].into_iter().collect() };
                    faulty.push(s);
                }
                let mut s = base_s.clone();
                s.fail_alloc = Some(sr.below(a));
                faulty.push(s);
            }
            for fs in faulty {
                ctx.progress("run fault reference");
                let fbase = run_sched(&program, &fs);
                ctx.evaluation();
                if fbase.panic.is_some() || fbase.aborted || crate::ctl::vmrun::innermost(&fbase.result) == "Timeout" {
                    continue;
                }
                for plan in [GcPlan::Every, GcPlan::EveryKth(2, 1)] {
                    let mut s = fs.clone();
                    s.gc = plan;
                    ctx.progress("run fault under collection");
                    let out = run_sched(&program, &s);
                    ctx.evaluation();
                    ctx.count("runs_with_injected_fault_under_collection", 1);
                    ctx.count("fault:host_failures_fired", out.host_fails_fired);
                    ctx.count("fault:alloc_failures_fired", out.counters.alloc_fail_injected);
                    if out.counters.gcs > 0 {
                        ctx.nontrivial(prng::mix(&[phash, s.hash()]));
                    }
                    let vs = c02_violations(&fbase, &out);
                    if !vs.is_empty() {
                        all_audits_passed = false;
                    }
                    for (sig, what) in vs {
                        report(ctx, &module, &s, sig, what);
                    }
                }
            }
        }
        // real frees (no quarantine) for this program, only if no audit failed: catches reuse of
        // swept memory showing up as changed data; a crash here kills the worker and is reported
        // by the driver as a crash in phase "run"
        if all_audits_passed {
            for plan in [GcPlan::Every, GcPlan::EveryKth(3, 1)] {
                let mut s = base_s.clone();
                s.gc = plan;
                s.quarantine = false;
                ctx.progress("run real-free");
                let out = run_sched(&program, &s);
                ctx.evaluation();
                ctx.count("runs_with_real_frees", 1);
                if out.counters.gcs > 0 {
                    ctx.nontrivial(prng::mix(&[phash, s.hash()]));
                }
                for (sig, what) in c02_violations(&base, &out) {
                    report(ctx, &module, &s, sig, what);
                }
            }
            // natural schedule under a small real limit
            let peak = base.counters.peak_allocated.max(64);
            // (the third one on a VM created with the default limit and switched down with
            // set_memory_limit, as an embedder configures a VM it already has)
            for (f, from) in [(2usize, None), (1, None), (2, Some(400 * 1024usize))] {
                let mut s = base_s.clone();
                s.gc = GcPlan::Natural;
                s.quarantine = false;
                s.knobs.mem_limit = peak * f + 512;
                s.knobs.limit_from = from;
                ctx.progress("run natural");
                let out = run_sched(&program, &s);
                ctx.evaluation();
                ctx.count("runs_natural_schedule", 1);
                ctx.count("fault:collections_natural", out.counters.gcs);
                if out.counters.gcs > 0 {
                    ctx.nontrivial(prng::mix(&[phash, s.hash()]));
                }
                if crate::ctl::vmrun::innermost(&out.result) == "OutOfMemory" {
                    ctx.count("natural_runs_ending_in_oom", 1);
                    continue; // C05's business
                }
                for (sig, what) in c02_violations(&base, &out) {
                    report(ctx, &module, &s, sig, what);
                }
            }
        }
    }
    fn replay(&self, replay: &Json, ctx: &mut CaseCtx) {
        let Some(m) = replay.get("module").and_then(module_from_json) else { return };
        let Some(s) = replay.get("schedule").and_then(Schedule::from_json) else { return };
        let Compiled::Ok(p) = compile_module(&m) else { return };
        ctx.progress("run replay");
        let base = run_sched(&p, &base_schedule_like(&s));
        let out = run_sched(&p, &s);
        ctx.evaluation();
        for (sig, what) in c02_violations(&base, &out) {
            if !ctx.violations.iter().any(|v| v.sig == sig) {
                ctx.violation(sig, what, replay.clone());
            }
        }
    }
    fn minimise(&self, replay: &Json, sig: &Json) -> Json {
        let Some(m) = replay.get("module").and_then(module_from_json) else { return replay.clone() };
        let Some(s) = replay.get("schedule").and_then(Schedule::from_json) else { return replay.clone() };
        let (mm, ms) = minimise(&m, &s, sig);
        json!({"module": module_json(&mm), "schedule": ms.to_json(), "cards": count_cards(&mm)})
    }
    fn assumptions(&self) -> Vec<String> {
        vec![
            "root set = value stack, globals, closures of active call frames, open-upvalue list, objects under a live ObjectGcGuard, arguments of the host function currently executing; operands a plain instruction has popped and finished with are not roots (audit A2 catches them if they are stored back)".into(),
            "forced collections run through the production branch: the controller only stores into next_gc before the allocation".into(),
            "quarantine keeps swept memory intact so the audit can name swept objects; runs with real frees are made only for programs whose audits passed".into(),
            "closures capture variables only in `main` (frame offset 0): captures from frames at other offsets hit the frame-relative-index defect of C06, which is outside this check".into(),
        ]
    }
    fn components(&self) -> Json {
        json!({"real": ["compiler", "VM dispatch loop", "allocator", "collector", "tables / hash map", "stdlib (cards and natives)"],
               "stub": ["host natives log/id/mk_table/mk_str/call0-2 (the simulated host)"]})
    }
    fn asan_flavour_share(&self) -> bool {
        true
    }
    fn required_probes(&self, _tier: Tier) -> Vec<String> {
        vec![
            "fault:collections_forced".into(),
            "reach:gc_in:InitTable".into(),
            "reach:gc_in:StringLiteral".into(),
            "reach:gc_in:SetProperty".into(),
            "reach:gc_in:AppendTable".into(),
            "reach:gc_in:NthRow".into(),
            "reach:gc_in:Closure".into(),
            "reach:gc_in:FunctionPointer".into(),
            "reach:gc_in:RegisterUpvalue".into(),
            "reach:gc_in:CallNative".into(),
            "probe:gc_with_open_upvalue".into(),
            "probe:gc_with_closure_frame_active".into(),
            "probe:gc_in_nested_activation".into(),
            "probe:gc_with_live_guard".into(),
        ]
    }
    fn watchdog_s(&self, _tier: Tier) -> u64 {
        60
    }
}
