//! C17 - A cleared VM behaves like a fresh one; runs are deterministic and do not leak.
//!
//! Crash/restart reading: a run ended by an injected fault (Timeout at a chosen budget,
//! OutOfMemory at a chosen allocation, host failure, stack / call-stack exhaustion) is the crash,
//! `clear` is the restart, and nothing but the registered natives is durable. Histories of
//! (program, budget, fault, clear?) are executed on ONE long-lived VM; every step that starts from
//! a cleared VM is compared with the same step on a newly created VM.
use super::vmcommon::*;
use crate::ctl::obs::Obs;
use crate::ctl::vmctl::{CtlConfig, GcPlan, VmCtl};
use crate::ctl::vmrun::{collect, innermost, new_vm, teardown, HostDecision, HostPlan, Knobs, RunOut};
use crate::gen::churn::{gen_churn_program, gen_churn_shape};
use crate::gen::loops::{gen_loop_program, gen_shape};
use crate::gen::program::{gen_program, GenCfg};
use crate::kernel::worker::catch;
use crate::kernel::{prng, CaseCtx, Check, Rng, Tier};
use cao_lang::compiler::{Card, CardBody, Function, Module};
use cao_lang::prelude::*;
use serde::{Deserialize, Serialize};
use serde_json::{json, Value as Json};
use std::collections::BTreeMap;
use std::sync::atomic::Ordering;

pub struct C17;

#[derive(Clone, Debug, Serialize, Deserialize, PartialEq)]
pub enum Fault {
    None,
    /// run with this instruction budget (expected to expire)
    Budget(u64),
    /// fail the j-th allocation of the step
    FailAlloc(u64),
    /// fail the k-th host call of the step
    HostFail(u64),
}

#[derive(Clone, Debug, Serialize, Deserialize)]
pub struct Step {
    pub program: usize,
    pub fault: Fault,
    pub clear_after: bool,
}

#[derive(Clone, Debug, Serialize, Deserialize)]
pub struct History {
    pub mem_limit: usize,
    /// Some(L0): the host configures the limit the way an embedder does on a VM it already has:
    /// the reused VM is created with limit L0 and switched to `mem_limit` with
    /// `RuntimeData::set_memory_limit` before the first run and at every clear (the call clears
    /// the VM). The fresh VMs it is compared with are created with `mem_limit` directly.
    #[serde(default)]
    pub limit_via_setter: Option<usize>,
    pub value_stack: usize,
    pub call_stack: usize,
    pub programs: Vec<Module>,
    pub steps: Vec<Step>,
}

#[derive(Clone, Debug, PartialEq)]
pub struct StepObs {
    pub result: String,
    pub globals: BTreeMap<String, Obs>,
    pub host_log: Vec<(String, Vec<Obs>)>,
    pub end_allocated: usize,
    pub peak_allocated: usize,
    pub collections: u64,
    pub dispatches: u64,
    pub allocs: u64,
    pub panicked: bool,
    /// "nontermination:<site>" (bounded probe loop gave up) or "panic at <site>"
    pub panic_how: String,
    /// value-stack height when the run returned
    pub end_height: usize,
    /// call-stack depth when the run returned minus the depth when it started
    pub leaked_frames: i64,
}

const BIG_BUDGET: u64 = 200_000;

fn c(b: CardBody) -> Card {
    b.into()
}
fn bin(a: Card, b: Card) -> Box<[Card; 2]> {
    Box::new([a, b])
}

/// a program whose `main` has no locals and leaves the value stack as it found it
fn gen_balanced(rng: &mut Rng) -> Module {
    let mut main = Function::default();
    let n = 1 + rng.usize(4);
    for i in 0..n {
        let e = match rng.below(10) {
            // two tables of equal length and different content
            9 => c(CardBody::Equals(bin(
                Card::call_function("words", vec![Card::scalar_int(1)]),
                Card::call_function("work", vec![Card::scalar_int(5)]),
            ))),
            // comparisons the language leaves unordered (distinct strings of equal length): the
            // answer must not depend on where the allocator happened to put the objects
            6 => c(CardBody::Less(bin(Card::string_card(["alpha", "bravo", "delta"][rng.usize(3)]), Card::string_card(["gamma", "omega", "sigma"][rng.usize(3)])))),
            7 => Card::call_function(
                ["std.sorted", "std.min", "std.max"][rng.usize(3)],
                vec![Card::call_function("words", vec![Card::scalar_int(rng.range(2, 7))])],
            ),
            // a value card that produces nothing: the assignment pops an empty stack
            8 => Card::composite_card("nothing", vec![c(CardBody::Comment("no value".into()))]),
            0 => Card::scalar_int(rng.range(0, 100)),
            1 => Card::string_card(format!("balanced{}", rng.below(1000))),
            2 => c(CardBody::CreateTable),
            3 => Card::call_function("work", vec![Card::scalar_int(rng.range(0, 6))]),
            4 if rng.chance(1, 2) => Card::call_native("mk_str", vec![Card::scalar_int(2 * rng.range(0, 15) + 1)]),
            4 => Card::call_native("mk_table", vec![Card::scalar_int(rng.range(0, 9))]),
            _ => Card::call_function("std.sorted", vec![Card::call_function("work", vec![Card::scalar_int(rng.range(0, 6))])]),
        };
        main.cards.push(Card::set_global_var(format!("b{i}"), e));
    }
    let mut m = Module::default();
    m.functions.push(("main".into(), main));
    // words(n): a table of n distinct strings of equal length
    m.functions.push((
        "words".into(),
        Function::default().with_arg("n").with_cards(vec![
            Card::set_var("t", c(CardBody::CreateTable)),
            c(CardBody::AppendTable(bin(Card::string_card("kilo"), Card::read_var("t")))),
            c(CardBody::AppendTable(bin(Card::string_card("lima"), Card::read_var("t")))),
            c(CardBody::AppendTable(bin(Card::string_card("echo"), Card::read_var("t")))),
            c(CardBody::Repeat(Box::new(cao_lang::compiler::Repeat {
                i: None,
                n: Card::read_var("n"),
                body: c(CardBody::AppendTable(bin(Card::string_card("zulu"), Card::read_var("t")))),
            }))),
            c(CardBody::AppendTable(bin(Card::string_card("alfa"), Card::read_var("t")))),
            Card::return_card(Card::read_var("t")),
        ]),
    ));
    // work(n): builds a table with n entries and returns it
    m.functions.push((
        "work".into(),
        Function::default().with_arg("n").with_cards(vec![
            Card::set_var("t", c(CardBody::CreateTable)),
            c(CardBody::Repeat(Box::new(cao_lang::compiler::Repeat {
                i: Some("i".into()),
                n: Card::read_var("n"),
                body: c(CardBody::AppendTable(bin(
                    c(CardBody::Sub(bin(Card::scalar_int(10), Card::read_var("i")))),
                    Card::read_var("t"),
                ))),
            }))),
            Card::return_card(Card::read_var("t")),
        ]),
    ));
    m
}

/// unbounded recursion: ends in CallStackOverflow (or Stackoverflow with arguments)
fn gen_recursive(rng: &mut Rng) -> Module {
    let with_arg = rng.chance(1, 2);
    let mut m = Module::default();
    m.functions.push((
        "main".into(),
        Function::default().with_card(Card::set_global_var(
            "r",
            Card::call_function("rec", if with_arg { vec![Card::scalar_int(0)] } else { vec![] }),
        )),
    ));
    let mut f = Function::default();
    if with_arg {
        f = f.with_arg("x");
        f.cards.push(Card::set_var("pad", Card::string_card("padding")));
        f.cards.push(Card::return_card(Card::call_function(
            "rec",
            vec![c(CardBody::Add(bin(Card::read_var("x"), Card::scalar_int(1))))],
        )));
    } else {
        f.cards.push(Card::return_card(Card::call_function("rec", vec![])));
    }
    m.functions.push(("rec".into(), f));
    m
}

/// a program without locals or arguments that ends 1-3 calls deep: a failing native, a missing
/// variable or an Abort card. It hands back an empty value stack.
fn gen_early_exit(rng: &mut Rng) -> Module {
    let depth = 1 + rng.usize(3);
    let mut m = Module::default();
    m.functions.push((
        "main".into(),
        Function::default().with_cards(vec![
            Card::set_global_var("before", Card::scalar_int(1)),
            Card::call_function("d1", vec![]),
            Card::set_global_var("after", Card::scalar_int(1)),
        ]),
    ));
    for d in 1..=depth {
        let mut f = Function::default();
        f.cards.push(Card::set_global_var(format!("reached{d}"), Card::scalar_int(d as i64)));
        if d < depth {
            f.cards.push(Card::call_function(format!("d{}", d + 1), vec![]));
        } else {
            f.cards.push(match rng.below(3) {
                0 => Card::call_native("fail", vec![Card::scalar_int(1)]),
                1 => Card::set_global_var("x", Card::read_var("never_assigned_global")),
                _ => c(CardBody::Abort),
            });
        }
        m.functions.push((format!("d{d}"), f));
    }
    m
}

/// Three programs sharing a global table that survives from run to run while the VM is not
/// cleared: [0] creates it, [1] adds `n` new keys (running into the memory limit sooner or later),
/// [2] looks up keys that are not in it.
fn gen_persist_programs(rng: &mut Rng) -> Vec<Module> {
    let one = |cards: Vec<Card>| {
        let mut m = Module::default();
        m.functions.push(("main".into(), Function::default().with_cards(cards)));
        m
    };
    // globals are slots numbered in order of first appearance in each program: every program
    // starts by naming the two shared ones in the same order
    let same_ids = [
        Card::set_global_var("persist", Card::read_var("persist")),
        Card::set_global_var("persist_ctr", Card::read_var("persist_ctr")),
    ];
    let n = 3 + rng.range(0, 40);
    let payload_strings = rng.chance(1, 4);
    // every insert uses a key that was never used before, also after a failed run: the counter is
    // advanced before the insert
    let key = if rng.chance(1, 3) {
        c(CardBody::Div(bin(Card::read_var("persist_ctr"), Card::scalar_int(2))))
    } else {
        c(CardBody::Add(bin(c(CardBody::Mul(bin(Card::read_var("persist_ctr"), Card::scalar_int(3)))), Card::scalar_int(1))))
    };
    vec![
        one(vec![
            Card::set_global_var("persist", c(CardBody::CreateTable)),
            Card::set_global_var("persist_ctr", Card::scalar_int(0)),
        ]),
        one(vec![
            same_ids[0].clone(),
            same_ids[1].clone(),
            c(CardBody::Repeat(Box::new(cao_lang::compiler::Repeat {
            i: None,
            n: Card::scalar_int(n),
            body: Card::composite_card(
                "body",
                vec![
                    Card::set_global_var("persist_ctr", c(CardBody::Add(bin(Card::read_var("persist_ctr"), Card::scalar_int(1))))),
                    // mostly values that need no allocation: then the growth of the table is the
                    // allocation that meets the limit
                    Card::set_property(
                        if payload_strings { Card::string_card("persistent payload") } else { Card::read_var("persist_ctr") },
                        Card::read_var("persist"),
                        key,
                    ),
                ],
            ),
        })))]),
        one(vec![
            same_ids[0].clone(),
            same_ids[1].clone(),
            Card::set_global_var("absent_a", c(CardBody::GetProperty(bin(Card::read_var("persist"), Card::scalar_int(1_000_003))))),
            Card::set_global_var("absent_b", c(CardBody::GetProperty(bin(Card::read_var("persist"), Card::string_card("no such key"))))),
            Card::set_global_var("persist_len", c(CardBody::Len(cao_lang::compiler::UnaryExpression { card: Box::new(Card::read_var("persist")) }))),
        ]),
    ]
}

/// data that persists across runs without clear, under a tight memory limit
pub fn gen_persist_history(rng: &mut Rng) -> History {
    let programs = gen_persist_programs(rng);
    let mut steps = vec![Step { program: 0, fault: Fault::None, clear_after: false }];
    for _ in 0..(4 + rng.usize(16)) {
        let fault = match rng.below(8) {
            0 => Fault::Budget(1 + rng.below(300)),
            1 => Fault::FailAlloc(rng.below(12)),
            _ => Fault::None,
        };
        steps.push(Step { program: if rng.chance(3, 4) { 1 } else { 2 }, fault, clear_after: false });
    }
    steps.push(Step { program: 2, fault: Fault::None, clear_after: true });
    History {
        // from "the empty table barely fits" to "a few growths fit"
        mem_limit: 400 + rng.usize(4000),
        limit_via_setter: None,
        value_stack: 256,
        call_stack: 256,
        programs,
        steps,
    }
}

fn gen_history(rng: &mut Rng, tier: Tier, endurance: bool) -> History {
    if !endurance && rng.chance(1, 8) {
        return gen_persist_history(rng);
    }
    let mut programs = vec![];
    let np = if endurance { 1 } else { 1 + rng.usize(3) };
    for _ in 0..np {
        let m = match rng.below(if endurance { 4 } else { 8 }) {
            0 | 1 => gen_balanced(rng),
            3 if endurance => gen_early_exit(rng),
            7 => gen_early_exit(rng),
            2 => {
                let mut s = gen_churn_shape(rng);
                s.iterations = s.iterations.min(60);
                gen_churn_program(&s)
            }
            3 => {
                let sh = gen_shape(rng);
                gen_loop_program(&sh)
            }
            4 => gen_recursive(rng),
            _ => {
                let cfg = GenCfg::swarm(rng);
                gen_program(rng, &cfg)
            }
        };
        programs.push(m);
    }
    let mut steps = vec![];
    if endurance {
        let n = match tier {
            Tier::Quick => 280 + rng.usize(60),
            Tier::Thorough => 600 + rng.usize(100),
        };
        let clear = rng.chance(1, 2);
        for _ in 0..n {
            steps.push(Step { program: 0, fault: Fault::None, clear_after: clear });
        }
    } else {
        let n = 2 + rng.usize(10);
        for _ in 0..n {
            let fault = match rng.below(8) {
                0 | 1 => Fault::Budget(1 + rng.below(400)),
                2 => Fault::FailAlloc(rng.below(40)),
                3 => Fault::HostFail(rng.below(4)),
                _ => Fault::None,
            };
            steps.push(Step { program: rng.usize(np), fault, clear_after: rng.chance(3, 4) });
        }
    }
    let mem_limit = *rng.pick(&[400 * 1024usize, 64 * 1024, 16 * 1024, 6 * 1024]);
    History {
        mem_limit,
        limit_via_setter: if rng.chance(1, 4) { Some(*rng.pick(&[400 * 1024usize, 400 * 1024, 1024 * 1024, 16 * 1024, 2 * 1024])) } else { None },
        value_stack: *rng.pick(&[256usize, 256, 64, 24]),
        call_stack: *rng.pick(&[256usize, 256, 32, 8]),
        programs,
        steps,
    }
}

pub struct Machine {
    ctl: VmCtl,
    vm: Option<Vm<'static, crate::ctl::vmrun::Host>>,
}

impl Machine {
    pub fn new(h: &History) -> Option<Machine> {
        Self::with_limit(h, h.mem_limit)
    }

    fn with_limit(h: &History, mem_limit: usize) -> Option<Machine> {
        let ctl = VmCtl::new(CtlConfig { gc: GcPlan::Natural, ..Default::default() });
        ctl.install();
        let knobs = Knobs { budget: BIG_BUDGET, mem_limit, value_stack: h.value_stack, call_stack: h.call_stack, limit_from: None };
        let vm = new_vm(&ctl, &knobs, HostPlan::default())?;
        Some(Machine { ctl, vm: Some(vm) })
    }

    /// the VM whose history is under test: created as an embedder's long-lived VM is
    pub fn reused(h: &History) -> Option<Machine> {
        match h.limit_via_setter {
            None => Self::new(h),
            Some(l0) => {
                let mut m = Self::with_limit(h, l0)?;
                m.set_limit(h.mem_limit);
                Some(m)
            }
        }
    }

    fn set_limit(&mut self, limit: usize) {
        let vm = self.vm.as_mut().unwrap();
        let _ = catch(|| vm.runtime_data.set_memory_limit(limit));
        self.ctl.settle(&vm.runtime_data);
    }

    /// run one step; returns its observation and the raw RunOut (for findings)
    pub fn step(&mut self, p: &CaoCompiledProgram, fault: &Fault) -> (StepObs, RunOut) {
        let vm = self.vm.as_mut().unwrap();
        let c0 = self.ctl.counters();
        // per-step fault placement (indices are relative to the step)
        self.ctl.0.borrow_mut().c.peak_allocated = vm.runtime_data.verif_memory().allocated.load(Ordering::Relaxed);
        vm.max_instr = match fault {
            Fault::Budget(n) => *n,
            _ => BIG_BUDGET,
        };
        self.ctl.set_cfg(|cfg| {
            cfg.fail_alloc = match fault {
                Fault::FailAlloc(j) => Some(c0.allocs + *j),
                _ => None,
            }
        });
        vm.auxiliary_data.ncalls = 0;
        vm.auxiliary_data.plan = match fault {
            Fault::HostFail(k) => HostPlan { at: [(*k, HostDecision::Fail)].into_iter().collect() },
            _ => HostPlan::default(),
        };
        let depth0 = vm.runtime_data.verif_call_depth();
        let r = catch(|| vm.run(p));
        let end_height = vm.runtime_data.verif_stack_height();
        let leaked_frames = vm.runtime_data.verif_call_depth() as i64 - depth0 as i64;
        let out = collect(vm, &self.ctl, p, r, true);
        let c1 = &out.counters;
        let obs = StepObs {
            result: out.result.clone(),
            globals: out.globals.clone(),
            host_log: out.host_log.iter().map(|h| (h.name.clone(), h.args.clone())).collect(),
            end_allocated: out.end_allocated,
            peak_allocated: c1.peak_allocated,
            collections: c1.gcs - c0.gcs,
            dispatches: c1.dispatches - c0.dispatches,
            allocs: c1.allocs - c0.allocs,
            panicked: out.panic.is_some(),
            panic_how: match &out.panic {
                Some(p) if p.msg.starts_with("nontermination:") => p.msg.clone(),
                Some(p) => format!("panic at {}", panic_site(p)),
                None => String::new(),
            },
            end_height,
            leaked_frames,
        };
        (obs, out)
    }

    /// clear the VM and report what survived
    fn clear(&mut self) -> Vec<(Json, String)> {
        let vm = self.vm.as_mut().unwrap();
        let mut v = vec![];
        if catch(|| vm.clear()).is_err() {
            v.push((json!({"inv": "clear-panics"}), "Vm::clear panicked".to_string()));
            return v;
        }
        self.ctl.settle(&vm.runtime_data);
        let view = vm.runtime_data.verif_view();
        let alloc = view.memory.allocated.load(Ordering::Relaxed);
        let mut left = vec![];
        if !view.value_stack.is_empty() {
            left.push(format!("value-stack height {}", view.value_stack.len()));
        }
        if !view.frames.is_empty() {
            left.push(format!("call-stack depth {}", view.frames.len()));
        }
        if !view.globals.is_empty() {
            left.push(format!("{} globals", view.globals.len()));
        }
        if !view.object_list.is_empty() {
            left.push(format!("{} objects", view.object_list.len()));
        }
        if !view.open_upvalues.is_null() {
            left.push("open upvalues".to_string());
        }
        if alloc != 0 {
            left.push(format!("{alloc} bytes accounted"));
        }
        if !left.is_empty() {
            v.push((
                json!({"inv": "clear-leaves-state", "what": left.iter().map(|s| s.split(' ').next_back().unwrap_or("").to_string()).collect::<Vec<_>>()}),
                format!("after clear the VM still has: {}", left.join(", ")),
            ));
        }
        v
    }

    pub fn finish(mut self) {
        if let Some(vm) = self.vm.take() {
            let mut out = crate::ctl::vmrun::empty_out();
            teardown(vm, &self.ctl, &mut out);
        }
        VmCtl::uninstall();
    }
}

fn first_diff(a: &StepObs, b: &StepObs, memory: bool) -> Option<(String, String)> {
    if a.panicked || b.panicked {
        if a.panicked != b.panicked {
            return Some(("outcome".into(), "one of the runs panicked".into()));
        }
        return None;
    }
    if a.result != b.result {
        return Some(("outcome".into(), format!("result {} vs {}", a.result, b.result)));
    }
    if a.globals != b.globals {
        return Some(("globals".into(), "global variables differ".into()));
    }
    if a.host_log != b.host_log {
        return Some(("host-calls".into(), "host-call sequence differs".into()));
    }
    if a.dispatches != b.dispatches {
        return Some(("instructions".into(), format!("{} vs {} instructions executed", a.dispatches, b.dispatches)));
    }
    if memory {
        if a.end_allocated != b.end_allocated {
            return Some(("allocated".into(), format!("accounted memory at run end {} vs {}", a.end_allocated, b.end_allocated)));
        }
        if a.peak_allocated != b.peak_allocated || a.collections != b.collections {
            return Some((
                "gc-timing".into(),
                format!(
                    "peak accounted memory {} vs {}, collections {} vs {}",
                    a.peak_allocated, b.peak_allocated, a.collections, b.collections
                ),
            ));
        }
    }
    None
}

fn ending_class(r: &str) -> String {
    innermost(r).to_string()
}

/// execute a history; returns violations (signature, text, index of the step that showed it)
fn run_history(h: &History, ctx: Option<&mut CaseCtx>) -> Vec<(Json, String, usize)> {
    let mut ctxo = ctx;
    let mut found: Vec<(Json, String, usize)> = vec![];
    let compiled: Vec<Option<CaoCompiledProgram>> = h
        .programs
        .iter()
        .map(|m| match compile_module(m) {
            Compiled::Ok(p) => Some(p),
            _ => None,
        })
        .collect();
    if compiled.iter().any(|c| c.is_none()) {
        if let Some(ctx) = ctxo.as_deref_mut() {
            ctx.count("discarded_compile", 1);
        }
        return found;
    }
    let Some(mut m) = Machine::reused(h) else { return found };
    if h.limit_via_setter.is_some() {
        if let Some(ctx) = ctxo.as_deref_mut() {
            ctx.count("probe:limit_configured_with_set_memory_limit", 1);
        }
    }
    let mut cleared = true;
    let mut prev_ending = "fresh".to_string();
    // first observation of each program from a cleared state, for repeat comparisons
    let mut first_obs: BTreeMap<(usize, String), StepObs> = BTreeMap::new();
    let mut reused_obs: Vec<(usize, StepObs, bool, String)> = vec![];
    for (i, st) in h.steps.iter().enumerate() {
        let p = compiled[st.program].as_ref().unwrap();
        let (obs, out) = m.step(p, &st.fault);
        if let Some(ctx) = ctxo.as_deref_mut() {
            ctx.evaluation();
            ctx.count("dispatches", obs.dispatches);
            ctx.count(&format!("reach:ending:{}", ending_class(&obs.result)), 1);
            match &st.fault {
                Fault::Budget(_) if innermost(&obs.result) == "Timeout" => ctx.count("fault:timeout_fired", 1),
                Fault::FailAlloc(_) => ctx.count("fault:alloc_fail_fired", out.counters.alloc_fail_injected.min(1)),
                Fault::HostFail(_) => ctx.count("fault:host_fail_fired", out.host_fails_fired.min(1)),
                _ => {}
            }
            if !cleared {
                ctx.count("probe:run_on_uncleared_vm", 1);
            }
        }
        for f in out.findings.iter() {
            if ["double-free-object", "release-of-unknown-block", "refund-mismatch", "guard-never-released"].contains(&f.kind.as_str())
                && !found.iter().any(|(s, _, _)| s == &f.sig)
            {
                found.push((f.sig.clone(), f.what.clone(), i));
            }
        }
        // a run hands the call stack back as it found it, however it ended: frames left behind
        // are out of every program's reach and use up the call stack of the following runs
        if obs.leaked_frames != 0 && !obs.panicked {
            let sig = json!({"inv": "run-leaves-call-frames", "ending": ending_class(&obs.result)});
            if !found.iter().any(|(s, _, _)| s == &sig) {
                found.push((sig, format!("step {i}: the run ended with {} and left {} frame(s) on the call stack", obs.result, obs.leaked_frames), i));
            }
        }
        reused_obs.push((i, obs.clone(), cleared, prev_ending.clone()));
        // repeating the same run from the same (cleared) state gives the same outcome every time
        if cleared {
            let key = (st.program, serde_json::to_string(&st.fault).unwrap());
            match first_obs.get(&key) {
                None => {
                    first_obs.insert(key, obs.clone());
                }
                Some(f) => {
                    if let Some((comp, d)) = first_diff(f, &obs, true) {
                        let sig = json!({"inv": "repeat-differs", "component": comp});
                        if !found.iter().any(|(s, _, _)| s == &sig) {
                            found.push((sig, format!("step {i}: repeating a run on the cleared VM differs from its first execution: {d}"), i));
                        }
                    }
                }
            }
        }
        prev_ending = ending_class(&obs.result);
        if st.clear_after {
            if h.limit_via_setter.is_some() {
                m.set_limit(h.mem_limit);
            }
            for (sig, what) in m.clear() {
                if !found.iter().any(|(s, _, _)| s == &sig) {
                    found.push((sig, format!("step {i}: {what}"), i));
                }
            }
            cleared = true;
        } else {
            cleared = false;
        }
    }
    m.finish();

    // compare with fresh VMs: every step that started from a cleared VM
    let mut fresh_cache: BTreeMap<(usize, String), StepObs> = BTreeMap::new();
    for (i, obs, was_cleared, after) in reused_obs.iter() {
        let st = &h.steps[*i];
        let key = (st.program, serde_json::to_string(&st.fault).unwrap());
        if !fresh_cache.contains_key(&key) {
            let Some(mut fm) = Machine::new(h) else { continue };
            let (fo, _) = fm.step(compiled[st.program].as_ref().unwrap(), &st.fault);
            fm.finish();
            if let Some(ctx) = ctxo.as_deref_mut() {
                ctx.evaluation();
                ctx.count("fresh_vm_runs", 1);
            }
            fresh_cache.insert(key.clone(), fo);
        }
        let fresh = &fresh_cache[&key];
        // whatever the earlier runs left behind, it must not make a run panic or spin (the probe
        // loops of the containers are bounded by a hook that panics) when the same run on a fresh
        // VM does neither
        if obs.panicked && !fresh.panicked {
            let sig = json!({"inv": "earlier-runs-make-a-run-panic-or-hang", "how": obs.panic_how.clone()});
            if !found.iter().any(|(s, _, _)| s == &sig) {
                found.push((
                    sig,
                    format!("step {i} (VM {} since the previous run): {}; on a fresh VM the same run ends with {}", if *was_cleared { "cleared" } else { "not cleared" }, obs.panic_how, fresh.result),
                    *i,
                ));
            }
            continue;
        }
        if *was_cleared {
            if let Some((comp, d)) = first_diff(fresh, obs, true) {
                let sig = json!({"inv": "cleared-vm-differs-from-fresh", "component": comp});
                if !found.iter().any(|(s, _, _)| s == &sig) {
                    found.push((sig, format!("step {i} (previous run ended with {after}, then clear): fresh VM vs cleared VM: {d}"), *i));
                }
            }
        } else {
            // no clear in between: only for a program that leaves the stacks balanced, succeeds, and
            // has been the only program run since the last clear (data left behind by a different
            // program legitimately occupies memory and globals)
            // balanced: the run hands back an empty value stack (observed), whether it succeeds or
            // fails; programs that succeed additionally have a main made of global assignments only
            let balanced = fresh.end_height == 0
                && (fresh.result != "Ok" || !h.programs[st.program].functions[0].1.cards.iter().any(|c| !matches!(c.body, CardBody::SetGlobalVar(_))));
            let mut same_since_clear = true;
            let mut j = *i;
            while j > 0 {
                j -= 1;
                if h.steps[j].clear_after {
                    break;
                }
                if h.steps[j].program != st.program || h.steps[j].fault != Fault::None {
                    same_since_clear = false;
                    break;
                }
            }
            // the values left in the globals by the previous run are still reachable while the next
            // run builds the new ones, so under a tight limit OutOfMemory is a legitimate outcome
            let legit_oom = innermost(&obs.result) == "OutOfMemory" && h.mem_limit < 400 * 1024;
            let prev_ok = *after == ending_class(&fresh.result) && same_since_clear && !legit_oom && st.fault == Fault::None;
            if balanced && prev_ok {
                if let Some(ctx) = ctxo.as_deref_mut() {
                    ctx.count("probe:balanced_repeat_without_clear", 1);
                }
                if let Some((comp, d)) = first_diff(fresh, obs, false) {
                    let sig = json!({"inv": "repeated-runs-drift", "component": comp});
                    if !found.iter().any(|(s, _, _)| s == &sig) {
                        found.push((sig, format!("run #{i} of a stack-balanced program on a VM that was not cleared differs from a fresh VM: {d}"), *i));
                    }
                }
            }
        }
    }
    found
}

fn shrink_history(h: &History, sig: &Json) -> History {
    let mut cur = h.clone();
    let fails = |c: &History| run_history(c, None).iter().any(|(s, _, _)| s == sig);
    // halve long histories first
    while cur.steps.len() > 8 {
        let mut cand = cur.clone();
        cand.steps.truncate(cur.steps.len() / 2);
        if fails(&cand) {
            cur = cand;
            continue;
        }
        let mut cand = cur.clone();
        cand.steps.drain(0..cur.steps.len() / 2);
        if fails(&cand) {
            cur = cand;
            continue;
        }
        // binary search on the prefix length for drift-like failures
        let (mut lo, mut hi) = (1usize, cur.steps.len());
        while lo < hi {
            let mid = (lo + hi) / 2;
            let mut cand = cur.clone();
            cand.steps.truncate(mid);
            if fails(&cand) {
                hi = mid;
            } else {
                lo = mid + 1;
            }
        }
        cur.steps.truncate(lo);
        break;
    }
    if cur.steps.len() <= 16 {
        let mut i = cur.steps.len();
        while i > 0 {
            i -= 1;
            if cur.steps.len() <= 1 {
                break;
            }
            let mut cand = cur.clone();
            cand.steps.remove(i);
            if fails(&cand) {
                cur = cand;
            }
        }
        // simplify faults
        for i in 0..cur.steps.len() {
            if cur.steps[i].fault != Fault::None {
                let mut cand = cur.clone();
                cand.steps[i].fault = Fault::None;
                if fails(&cand) {
                    cur = cand;
                }
            }
        }
    }
    cur
}

impl Check for C17 {
    fn id(&self) -> &'static str {
        "C17"
    }
    fn level(&self) -> &'static str {
        "exploration"
    }
    fn rule(&self) -> String {
        "one case = one seeded history on ONE long-lived VM: 2-12 steps of (program from a pool of 1-3: stack-balanced, churn, \
         G-loop, unbounded recursion, G-alloc; fault: none | budget N | fail the j-th allocation | fail the k-th host call; \
         clear afterwards or not) with seeded memory limit / stack sizes; every 8th case is an endurance history (one program \
         280-700 times, with or without clear). Every step that starts from a cleared VM is compared with the same step on a \
         newly created VM (outcome, globals, host calls, instructions executed, accounted memory at the end and its peak, \
         number of collections); the state after each clear is inspected; repeated identical steps must agree; stack-balanced \
         programs are also compared without clear. Also: early-exit programs ending 1-3 calls deep, comparisons the language \
         leaves unordered, assignments popping an empty stack; histories around a global table that persists without clear \
         under a 400-4400 byte limit; after every run the call-stack depth must be what it was; a run that panics or spins \
         although the same run on a fresh VM does neither is reported. A step is non-trivial if its fault fired or it ran on a reused VM; distinct = \
         distinct (history hash, step)."
            .to_string()
    }
    fn cases(&self, tier: Tier) -> u64 {
        match tier {
            Tier::Quick => 8000,
            Tier::Thorough => 300_000,
        }
    }
    fn run_case(&self, ctx: &mut CaseCtx) {
        let mut wr = ctx.rng("workload");
        let endurance = ctx.case % 8 == 7;
        let h = gen_history(&mut wr, ctx.tier, endurance);
        let hv = serde_json::to_value(&h).unwrap();
        let hh = crate::kernel::stable_hash_json(&hv);
        if ctx.case < 2 {
            ctx.sample = Some(json!({"history": {"mem_limit": h.mem_limit, "limit_via_setter": h.limit_via_setter, "value_stack": h.value_stack, "call_stack": h.call_stack,
                "steps": h.steps, "programs": h.programs.len()}, "first_program": module_json(&h.programs[0])}));
        }
        if endurance {
            ctx.count("endurance_histories", 1);
        }
        if h.programs.len() == 3 && h.steps.last().map(|s| s.program == 2 && s.clear_after).unwrap_or(false) && h.value_stack == 256 {
            ctx.count("persistent_table_histories", 1);
        }
        if let Some(dir) = std::env::var_os("CAOSIM_DUMP") {
            let _ = std::fs::write(
                std::path::Path::new(&dir).join(format!("C17-{}.json", ctx.case)),
                serde_json::to_string(&json!({"history": hv, "steps": h.steps.len()})).unwrap(),
            );
        }
        ctx.progress("run history");
        let found = run_history(&h, Some(ctx));
        for i in 1..h.steps.len() {
            ctx.nontrivial(prng::mix(&[hh, i as u64]));
        }
        for (sig, what, _) in found {
            ctx.violation(sig, what, json!({"history": hv, "steps": h.steps.len()}));
        }
    }
    fn minimise(&self, replay: &Json, sig: &Json) -> Json {
        let Some(h) = replay.get("history").and_then(|h| serde_json::from_value::<History>(h.clone()).ok()) else {
            return replay.clone();
        };
        let hm = shrink_history(&h, sig);
        json!({"history": hm, "steps": hm.steps.len()})
    }
    fn replay(&self, replay: &Json, ctx: &mut CaseCtx) {
        let Some(h) = replay.get("history").and_then(|h| serde_json::from_value::<History>(h.clone()).ok()) else { return };
        ctx.progress("run history");
        for (sig, what, _) in run_history(&h, Some(ctx)) {
            ctx.violation(sig, what, replay.clone());
        }
    }
    fn assumptions(&self) -> Vec<String> {
        vec![
            "only observable consequences are compared (outcome, globals, host calls, instruction count, accounted memory and its peak, number of collections), never the collector's internal threshold".into(),
            "repeating without clear is required to be invariant only for programs whose main has no locals (stack-balanced) and that end with Ok".into(),
            "the registered natives are the only state that may survive clear".into(),
        ]
    }
    fn components(&self) -> Json {
        json!({"real": ["Vm::run / Vm::clear / RuntimeData::clear", "allocator + collector", "compiler", "stdlib"],
               "stub": ["host natives (simulated host, failing on request)"]})
    }
    fn asan_flavour_share(&self) -> bool {
        true
    }
    fn required_probes(&self, _tier: Tier) -> Vec<String> {
        vec![
            "fault:timeout_fired".into(),
            "fault:alloc_fail_fired".into(),
            "fault:host_fail_fired".into(),
            "reach:ending:CallStackOverflow".into(),
            "reach:ending:OutOfMemory".into(),
            "probe:balanced_repeat_without_clear".into(),
            "endurance_histories".into(),
        ]
    }
    fn watchdog_s(&self, _tier: Tier) -> u64 {
        120
    }
}
