//! C15 - Error locations identify the failing card and its call chain.
//!
//! Workload: "path programs": a chain of calls with exactly one dynamic path from `main` to a
//! *site* card placed at a generated child position of a generated card kind (so the compiler's
//! child numbering is compared with `Card::get_child` across kinds), at call depth 0-5, in root and
//! nested modules. The error at the site is provoked by the simulator: a failing host stub, a
//! missing native / variable, a wrongly typed operand, a non-function callee, an allocation that
//! fails (armed from the allocation count a `mark` stub reports just before the site), a budget
//! that expires exactly on the site's instruction, a value stack / call stack sized from the
//! heights `mark` reports. Oracle: trace[0] resolves (in the module of its namespace) to the site
//! card, trace[1..] to the chain's call cards from innermost to outermost (optionally followed by
//! the program entry).
use super::vmcommon::*;
use crate::ctl::vmctl::{CtlConfig, GcPlan, VmCtl};
use crate::ctl::vmrun::{collect, empty_out, innermost, new_vm, run_program, teardown, HostPlan, Knobs, RunOut};
use crate::kernel::worker::catch;
use crate::kernel::{CaseCtx, Check, Rng, Tier};
use cao_lang::compiler::{Card, CardBody, CardId, CardIndex, ForEach, Function, Module, Repeat, UnaryExpression};
use cao_lang::prelude::*;
use serde::{Deserialize, Serialize};
use serde_json::{json, Value as Json};

pub struct C15;

#[derive(Clone, Copy, Debug, Serialize, Deserialize, PartialEq)]
pub enum ErrKind {
    NativeFails,
    MissingNative,
    MissingVariable,
    WrongOperand,
    NotAFunction,
    OutOfMemory,
    Timeout,
    Stackoverflow,
    CallStackOverflow,
    /// compile errors
    CompileEmptyVar,
    CompileBadJump,
    /// a ForEach / Repeat card whose own loop variable has an empty name
    CompileBadLoopVar,
    /// the value stack runs full exactly while a closure captures a variable (the closure object
    /// still fits, the copy made for registering the upvalue does not)
    StackoverflowAtCapture,
}

#[derive(Clone, Debug, Serialize, Deserialize)]
pub struct PathSpec {
    pub kind: ErrKind,
    /// contexts wrapped around the site, innermost first: (card kind id, child position)
    pub contexts: Vec<(u8, u8)>,
    /// call depth (number of script calls between main and the site's function)
    pub depth: usize,
    /// which levels live in nested modules (bitmask over levels 1..=depth)
    pub nested: u32,
    /// how each level calls the next: 0 static call statement, 1 call inside an expression, 2 dynamic call of a function value
    pub call_style: Vec<u8>,
    /// statements before the call / site in each function
    pub prefix: Vec<u8>,
}

fn c(b: CardBody) -> Card {
    b.into()
}
fn bin(a: Card, b: Card) -> Box<[Card; 2]> {
    Box::new([a, b])
}
fn un(a: Card) -> UnaryExpression {
    UnaryExpression::new(a)
}

pub const N_CONTEXTS: u8 = 24;

/// Wrap `inner` (a value-producing card) so that it sits at child position `pos` of card kind
/// `kind`; the result is again a value-producing card. `stmt_wrap` tells whether the result had
/// to be turned into a statement context internally.
fn wrap_value(kind: u8, pos: u8, inner: Card, uniq: usize) -> Card {
    let one = || Card::scalar_int(1);
    let tbl = || c(CardBody::CreateTable);
    let as_stmt = |e: Card| Card::set_global_var(format!("sink{uniq}"), e);
    match kind {
        0 => if pos == 0 { c(CardBody::Add(bin(inner, one()))) } else { c(CardBody::Add(bin(one(), inner))) },
        1 => if pos == 0 { c(CardBody::Sub(bin(inner, one()))) } else { c(CardBody::Sub(bin(one(), inner))) },
        2 => if pos == 0 { c(CardBody::Less(bin(inner, one()))) } else { c(CardBody::Less(bin(one(), inner))) },
        3 => if pos == 0 { c(CardBody::Equals(bin(inner, one()))) } else { c(CardBody::Equals(bin(one(), inner))) },
        4 => if pos == 0 { c(CardBody::And(bin(inner, one()))) } else { c(CardBody::And(bin(one(), inner))) },
        5 => if pos == 0 { c(CardBody::Or(bin(inner, one()))) } else { c(CardBody::Or(bin(one(), inner))) },
        6 => c(CardBody::Not(un(inner))),
        7 => c(CardBody::Len(un(inner))),
        8 => if pos == 0 { c(CardBody::GetProperty(bin(inner, one()))) } else { c(CardBody::GetProperty(bin(tbl(), inner))) },
        9 => if pos == 0 { c(CardBody::Get(bin(inner, one()))) } else { c(CardBody::Get(bin(tbl(), inner))) },
        10 => {
            // call-native argument
            let mut args = vec![one(), one(), one()];
            args[(pos % 3) as usize] = inner;
            Card::call_native("t3", args)
        }
        11 => {
            // static call argument
            let mut args = vec![one(), one()];
            args[(pos % 2) as usize] = inner;
            Card::call_function("two", args)
        }
        12 => {
            // dynamic call: function (child 0) or arguments (children 1..)
            if pos == 0 {
                Card::dynamic_call(inner, vec![one(), one()])
            } else {
                let mut args = vec![one(), one()];
                args[((pos - 1) % 2) as usize] = inner;
                Card::dynamic_call(c(CardBody::Function("two".into())), args)
            }
        }
        13 => {
            // array element: the array itself must be a statement-level value
            let mut items = vec![one(), one(), one()];
            items[(pos % 3) as usize] = inner;
            // Array needs statement level: wrap through a closure call that returns it
            Card::dynamic_call(
                c(CardBody::Closure(Box::new(Function::default().with_cards(vec![
                    Card::set_var(format!("arr{uniq}"), c(CardBody::Array(items))),
                    Card::return_card(Card::read_var(format!("arr{uniq}"))),
                ])))),
                vec![],
            )
        }
        14 => {
            // closure body card i, invoked at once
            let mut cards = vec![as_stmt(one()), as_stmt(one())];
            cards.insert((pos % 3) as usize, Card::return_card(inner));
            Card::dynamic_call(c(CardBody::Closure(Box::new(Function::default().with_cards(cards)))), vec![])
        }
        15 => {
            // IfElse: condition (0), then (1), else (2) - branches are statements returning through a closure
            let body = |e: Card| Card::return_card(e);
            let card = match pos % 3 {
                0 => c(CardBody::IfElse(Box::new([inner, as_stmt(one()), as_stmt(one())]))),
                1 => c(CardBody::IfElse(Box::new([one(), body(inner), as_stmt(one())]))),
                _ => c(CardBody::IfElse(Box::new([Card::scalar_int(0), as_stmt(one()), body(inner)]))),
            };
            Card::dynamic_call(c(CardBody::Closure(Box::new(Function::default().with_cards(vec![card, Card::return_card(one())])))), vec![])
        }
        16 => {
            let card = if pos % 2 == 0 {
                c(CardBody::IfTrue(bin(inner, as_stmt(one()))))
            } else {
                c(CardBody::IfTrue(bin(one(), Card::return_card(inner))))
            };
            Card::dynamic_call(c(CardBody::Closure(Box::new(Function::default().with_cards(vec![card, Card::return_card(one())])))), vec![])
        }
        17 => {
            let card = if pos % 2 == 0 {
                c(CardBody::IfFalse(bin(inner, as_stmt(one()))))
            } else {
                c(CardBody::IfFalse(bin(Card::scalar_int(0), Card::return_card(inner))))
            };
            Card::dynamic_call(c(CardBody::Closure(Box::new(Function::default().with_cards(vec![card, Card::return_card(one())])))), vec![])
        }
        18 => {
            // Repeat: n (0) / body (1)
            let card = if pos % 2 == 0 {
                c(CardBody::Repeat(Box::new(Repeat { i: None, n: inner, body: as_stmt(one()) })))
            } else {
                c(CardBody::Repeat(Box::new(Repeat { i: Some(format!("ri{uniq}")), n: Card::scalar_int(2), body: as_stmt(inner) })))
            };
            Card::dynamic_call(c(CardBody::Closure(Box::new(Function::default().with_cards(vec![card, Card::return_card(one())])))), vec![])
        }
        19 => {
            // While: condition (0) / body (1)
            let card = if pos % 2 == 0 {
                c(CardBody::While(Box::new([inner, Card::return_card(one())])))
            } else {
                c(CardBody::While(Box::new([one(), Card::return_card(inner)])))
            };
            Card::dynamic_call(c(CardBody::Closure(Box::new(Function::default().with_cards(vec![card, Card::return_card(one())])))), vec![])
        }
        20 => {
            // ForEach: iterable (0) / body (1)
            let card = if pos % 2 == 0 {
                c(CardBody::ForEach(Box::new(ForEach { i: None, k: None, v: None, iterable: Box::new(inner), body: Box::new(as_stmt(one())) })))
            } else {
                c(CardBody::ForEach(Box::new(ForEach {
                    i: Some(format!("fi{uniq}")),
                    k: None,
                    v: Some(format!("fv{uniq}")),
                    iterable: Box::new(Card::call_function("onetable", vec![])),
                    body: Box::new(as_stmt(inner)),
                })))
            };
            Card::dynamic_call(c(CardBody::Closure(Box::new(Function::default().with_cards(vec![card, Card::return_card(one())])))), vec![])
        }
        21 => {
            // composite card child i (statement list)
            let mut cards = vec![as_stmt(one()), as_stmt(one())];
            cards.insert((pos % 3) as usize, Card::return_card(inner));
            Card::dynamic_call(
                c(CardBody::Closure(Box::new(Function::default().with_cards(vec![Card::composite_card("comp", cards), Card::return_card(one())])))),
                vec![],
            )
        }
        22 => {
            // SetProperty children: value (0), table (1), key (2) - statement: through a closure
            let card = match pos % 3 {
                0 => Card::set_property(inner, tbl(), one()),
                1 => Card::set_property(one(), inner, one()),
                _ => Card::set_property(one(), tbl(), inner),
            };
            Card::dynamic_call(c(CardBody::Closure(Box::new(Function::default().with_cards(vec![card, Card::return_card(one())])))), vec![])
        }
        _ => {
            // AppendTable (value 0, table 1) / PopTable / SetVar value
            match pos % 4 {
                0 => Card::dynamic_call(
                    c(CardBody::Closure(Box::new(Function::default().with_cards(vec![c(CardBody::AppendTable(bin(inner, tbl()))), Card::return_card(one())])))),
                    vec![],
                ),
                1 => Card::dynamic_call(
                    c(CardBody::Closure(Box::new(Function::default().with_cards(vec![c(CardBody::AppendTable(bin(one(), inner))), Card::return_card(one())])))),
                    vec![],
                ),
                2 => c(CardBody::PopTable(un(inner))),
                _ => Card::dynamic_call(
                    c(CardBody::Closure(Box::new(Function::default().with_cards(vec![Card::set_var(format!("sv{uniq}"), inner), Card::return_card(Card::read_var(format!("sv{uniq}")))])))),
                    vec![],
                ),
            }
        }
    }
}

pub struct Built {
    pub module: Module,
    pub site: CardId,
    /// call cards of the chain, innermost first
    pub chain: Vec<CardId>,
    pub mark_present: bool,
}

fn gen_spec(rng: &mut Rng) -> PathSpec {
    let kind = *rng.pick(&[
        ErrKind::NativeFails, ErrKind::MissingNative, ErrKind::MissingVariable, ErrKind::WrongOperand, ErrKind::NotAFunction,
        ErrKind::OutOfMemory, ErrKind::Timeout, ErrKind::Stackoverflow, ErrKind::CallStackOverflow,
        ErrKind::CompileEmptyVar, ErrKind::CompileBadJump, ErrKind::CompileBadLoopVar, ErrKind::StackoverflowAtCapture,
    ]);
    let nctx = rng.usize(4);
    // now and then a chain of calls far longer than anything a trace could be cut to unnoticed
    let depth = if rng.chance(1, 16) { 30 + rng.usize(40) } else { rng.usize(6) };
    PathSpec {
        kind,
        contexts: (0..nctx).map(|_| (rng.below(N_CONTEXTS as u64) as u8, rng.below(4) as u8)).collect(),
        depth,
        nested: rng.next_u64() as u32,
        call_style: (0..depth).map(|_| rng.below(3) as u8).collect(),
        prefix: (0..=depth).map(|_| rng.below(4) as u8).collect(),
    }
}

/// the site expression for an error kind; returns (expression, id of the card that must be blamed)
fn site_expr(kind: ErrKind) -> (Card, CardId) {
    match kind {
        ErrKind::NativeFails => {
            let s = Card::call_native("fail", vec![Card::scalar_int(1)]);
            let id = s.id;
            (s, id)
        }
        ErrKind::MissingNative => {
            let s = Card::call_native("no_such_native_function", vec![]);
            let id = s.id;
            (s, id)
        }
        ErrKind::MissingVariable => {
            let s = Card::read_var("never_assigned_global");
            let id = s.id;
            (s, id)
        }
        ErrKind::WrongOperand => {
            let s = c(CardBody::GetProperty(bin(Card::scalar_int(5), Card::scalar_int(1))));
            let id = s.id;
            (s, id)
        }
        ErrKind::NotAFunction => {
            let s = Card::dynamic_call(Card::scalar_int(7), vec![]);
            let id = s.id;
            (s, id)
        }
        ErrKind::OutOfMemory => {
            let s = Card::string_card("the string whose allocation fails");
            let id = s.id;
            (s, id)
        }
        ErrKind::Timeout => {
            let s = Card::scalar_int(4242);
            let id = s.id;
            (s, id)
        }
        ErrKind::Stackoverflow => {
            // the second operand's push overflows
            let second = Card::scalar_int(2);
            let id = second.id;
            (c(CardBody::Add(bin(Card::scalar_int(1), second))), id)
        }
        ErrKind::CallStackOverflow => {
            let s = Card::call_function("leaf", vec![]);
            let id = s.id;
            (s, id)
        }
        ErrKind::StackoverflowAtCapture => {
            let s = c(CardBody::Closure(Box::new(Function::default().with_card(Card::return_card(Card::read_var("capx"))))));
            let id = s.id;
            (s, id)
        }
        ErrKind::CompileBadLoopVar => {
            // the loop card itself is to blame; its body is a comment, which cannot be
            let s = c(CardBody::ForEach(Box::new(cao_lang::compiler::ForEach {
                i: Some("li".into()),
                k: Some(String::new()),
                v: Some("lv".into()),
                iterable: Box::new(c(CardBody::CreateTable)),
                body: Box::new(c(CardBody::Comment("loop body".into()))),
            })));
            let id = s.id;
            (s, id)
        }
        ErrKind::CompileEmptyVar => {
            let s = Card::read_var("");
            let id = s.id;
            (s, id)
        }
        ErrKind::CompileBadJump => {
            let s = Card::call_function("this.function.does.not.exist", vec![]);
            let id = s.id;
            (s, id)
        }
    }
}

pub fn build(spec: &PathSpec) -> Built {
    let (mut expr, site) = site_expr(spec.kind);
    for (i, (k, p)) in spec.contexts.iter().enumerate() {
        expr = wrap_value(*k, *p, expr, i);
    }
    // functions level0 = main ... level depth holds the site
    let needs_mark = matches!(spec.kind, ErrKind::OutOfMemory | ErrKind::Timeout | ErrKind::Stackoverflow | ErrKind::CallStackOverflow | ErrKind::StackoverflowAtCapture);
    // the mark must come immediately before the site: only possible without contexts
    let mut chain: Vec<CardId> = vec![];
    let fname = |lvl: usize| -> String {
        if lvl == 0 {
            "main".to_string()
        } else {
            format!("lvl{lvl}")
        }
    };
    let in_nested = |lvl: usize| -> bool { lvl > 0 && lvl < 12 && (spec.nested >> lvl) & 1 == 1 };
    let qualified = |lvl: usize| -> String {
        if in_nested(lvl) {
            format!("sub{}.lvl{lvl}", lvl % 2)
        } else {
            fname(lvl)
        }
    };
    let mut root = Module::default();
    let mut subs: Vec<Module> = vec![Module::default(), Module::default()];
    // bits 12.. of `nested` seed two more shape choices (old replay files: 0)
    // (not for the value-stack fault: the recursion test needs more stack than the site)
    let recurse: usize = if spec.depth >= 1 && spec.contexts.is_empty() && !matches!(spec.kind, ErrKind::Stackoverflow | ErrKind::StackoverflowAtCapture) { ((spec.nested >> 13) & 3) as usize } else { 0 };
    let main_last = (spec.nested >> 12) & 1 == 1;
    // statements that are the bare expression (no SetGlobalVar around the site / the calls): the
    // first instruction of such a statement belongs to the statement's own card
    let bare = (spec.nested >> 15) & 1 == 1 && !needs_mark;
    let mut rec_call: Option<CardId> = None;
    for lvl in 0..=spec.depth {
        let mut f = Function::default();
        if lvl == 0 && recurse > 0 {
            f.cards.push(Card::set_global_var("g_rec", Card::scalar_int(recurse as i64)));
        }
        for j in 0..spec.prefix[lvl] {
            // cards in front of the interesting one: some produce code, some (comments, empty
            // composites) produce none
            // ... and loops whose body is a comment: everything they execute is their own
            // bookkeeping, no error can ever be the body's
            // (the kinds whose fault is placed by sizing a stack get no loops / calls in front: those
            // would need more stack than the site and take the fault themselves)
            let kinds = if matches!(spec.kind, ErrKind::Stackoverflow | ErrKind::CallStackOverflow | ErrKind::StackoverflowAtCapture) { 3 } else { 9 };
            f.cards.push(match (lvl + j as usize + (spec.nested >> 8) as usize) % kinds {
                0 => Card::set_var(format!("p{lvl}_{j}"), Card::string_card(format!("prefix {lvl} {j}"))),
                1 => c(CardBody::Comment(format!("comment {lvl} {j}"))),
                2 => Card::composite_card("empty", vec![c(CardBody::Comment("inside".into()))]),
                3 => c(CardBody::ForEach(Box::new(cao_lang::compiler::ForEach {
                    i: Some(format!("fi{lvl}_{j}")),
                    k: Some(format!("fk{lvl}_{j}")),
                    v: Some(format!("fv{lvl}_{j}")),
                    iterable: Box::new(Card::call_function("onetable", vec![])),
                    body: Box::new(c(CardBody::Comment("loop body".into()))),
                }))),
                4 => c(CardBody::Repeat(Box::new(cao_lang::compiler::Repeat {
                    i: Some(format!("ri{lvl}_{j}")),
                    n: Card::scalar_int(2),
                    body: c(CardBody::Comment("loop body".into())),
                }))),
                5 => c(CardBody::While(Box::new([Card::scalar_int(0), c(CardBody::Comment("loop body".into()))]))),
                6 => c(CardBody::IfTrue(bin(Card::scalar_int(1), c(CardBody::Comment("then".into()))))),
                7 => c(CardBody::IfFalse(bin(Card::scalar_int(0), c(CardBody::Comment("then".into()))))),
                _ => c(CardBody::IfElse(Box::new([Card::scalar_int((j % 2) as i64), c(CardBody::Comment("then".into())), c(CardBody::Comment("else".into()))]))),
            });
        }
        if lvl == spec.depth && recurse > 0 {
            // the site's function first calls itself `recurse` times through one and the same call
            // card: the chain lists that card once per activation
            let rc = Card::call_function(format!("lvl{lvl}"), vec![]);
            rec_call = Some(rc.id);
            f.cards.push(c(CardBody::IfTrue(bin(
                c(CardBody::Less(bin(Card::scalar_int(0), Card::read_var("g_rec")))),
                Card::composite_card(
                    "again",
                    vec![
                        Card::set_global_var("g_rec", c(CardBody::Sub(bin(Card::read_var("g_rec"), Card::scalar_int(1))))),
                        Card::return_card(rc),
                    ],
                ),
            ))));
        }
        if lvl == spec.depth && spec.kind == ErrKind::StackoverflowAtCapture {
            // the variable the site's closure captures
            f.cards.push(Card::set_var("capx", Card::scalar_int(1)));
        }
        if lvl == spec.depth {
            if needs_mark {
                f.cards.push(Card::set_global_var("marksink", Card::call_native("mark", vec![c(CardBody::ScalarNil)])));
            }
            f.cards.push(if bare { expr.clone() } else { Card::set_global_var("site_result", expr.clone()) });
            f.cards.push(Card::return_card(Card::scalar_int(1)));
        } else {
            let target = qualified(lvl + 1);
            let call = match spec.call_style[lvl] {
                2 => Card::dynamic_call(c(CardBody::Function(target)), vec![]),
                _ => Card::call_function(target, vec![]),
            };
            chain.push(call.id);
            let stmt = match spec.call_style[lvl] {
                1 if bare => c(CardBody::Add(bin(Card::scalar_int(1), call))),
                _ if bare => call,
                1 => Card::set_global_var(format!("r{lvl}"), c(CardBody::Add(bin(Card::scalar_int(1), call)))),
                _ => Card::set_global_var(format!("r{lvl}"), call),
            };
            f.cards.push(stmt);
            f.cards.push(Card::set_global_var(format!("after{lvl}"), Card::scalar_int(1)));
            if lvl > 0 {
                f.cards.push(Card::return_card(Card::scalar_int(1)));
            }
        }
        if in_nested(lvl) {
            subs[lvl % 2].functions.push((format!("lvl{lvl}"), f));
        } else {
            root.functions.push((fname(lvl), f));
        }
    }
    chain.reverse(); // innermost first
    if let Some(rc) = rec_call {
        for _ in 0..recurse {
            chain.insert(0, rc);
        }
    }
    // helpers used by contexts (root module, absolute names)
    root.functions.push(("two".into(), Function::default().with_arg("a").with_arg("b").with_card(Card::return_card(Card::read_var("a")))));
    root.functions.push(("leaf".into(), Function::default().with_card(Card::return_card(Card::scalar_int(3)))));
    root.functions.push((
        "onetable".into(),
        Function::default().with_cards(vec![
            Card::set_var("t", c(CardBody::CreateTable)),
            c(CardBody::AppendTable(bin(Card::scalar_int(1), Card::read_var("t")))),
            Card::return_card(Card::read_var("t")),
        ]),
    ));
    if main_last {
        // `main` need not be the first function of its module
        let main_fn = root.functions.remove(0);
        root.functions.push(main_fn);
    }
    // a module boundary where a one-card function is followed by the first function of the next
    // module (same function index, different namespace)
    if subs[0].functions.is_empty() && !subs[1].functions.is_empty() {
        subs[0].functions.push(("solo".into(), Function::default().with_card(Card::return_card(Card::scalar_int(1)))));
    }
    for (i, s) in subs.into_iter().enumerate() {
        if !s.functions.is_empty() {
            root.submodules.push((format!("sub{i}"), s));
        }
    }
    Built { module: root, site, chain, mark_present: needs_mark }
}

/// find the card with this id: (namespace, index)
fn locate(m: &Module, id: CardId) -> Option<(Vec<String>, CardIndex)> {
    fn go(m: &Module, ns: &mut Vec<String>, id: CardId) -> Option<(Vec<String>, CardIndex)> {
        let mut found = None;
        let mut mm = m.clone();
        mm.walk_cards(|idx, card| {
            if card.id == id && found.is_none() {
                found = Some(idx.clone());
            }
        });
        if let Some(i) = found {
            return Some((ns.clone(), i));
        }
        for (name, sub) in m.submodules.iter() {
            ns.push(name.clone());
            if let Some(r) = go(sub, ns, id) {
                return Some(r);
            }
            ns.pop();
        }
        None
    }
    go(m, &mut vec![], id)
}

fn resolve<'a>(m: &'a Module, t: &Trace) -> Option<&'a Card> {
    let mut cur = m;
    for ns in t.namespace.iter() {
        cur = cur.submodules.iter().find(|(n, _)| n.as_str() == ns.as_ref()).map(|(_, s)| s)?;
    }
    cur.get_card(&t.index).ok()
}

/// The instructions the compiler appends after the last card of a function (scope-end pops, the
/// implicit return / exit) are recorded under the index one past the last card: they belong to no
/// card, so the property says nothing about a timeout that lands on them.
fn is_function_epilogue(m: &Module, t: &Trace) -> bool {
    let mut cur = m;
    for ns in t.namespace.iter() {
        match cur.submodules.iter().find(|(n, _)| n.as_str() == ns.as_ref()) {
            Some((_, s)) => cur = s,
            None => return false,
        }
    }
    let ix = &t.index.card_index.indices;
    match cur.functions.get(t.index.function) {
        Some((_, f)) => ix.len() == 1 && ix[0] as usize == f.cards.len(),
        None => false,
    }
}

fn card_kind_name(c: &Card) -> String {
    c.name().to_string()
}

fn describe(m: &Module, t: &Trace) -> String {
    match resolve(m, t) {
        Some(c) => format!("{} at {}", card_kind_name(c), t),
        None => format!("nothing (index {t})"),
    }
}

fn relation(m: &Module, site: &(Vec<String>, CardIndex), t: &Trace) -> &'static str {
    let ns: Vec<String> = t.namespace.iter().map(|s| s.to_string()).collect();
    if resolve(m, t).is_none() {
        return "nothing";
    }
    if ns != site.0 || t.index.function != site.1.function {
        return "other-function";
    }
    let a = &t.index.card_index.indices;
    let b = &site.1.card_index.indices;
    if a.len() < b.len() && b[..a.len()] == a[..] {
        return "ancestor";
    }
    if a.len() > b.len() && a[..b.len()] == b[..] {
        return "descendant";
    }
    if a.len() == b.len() && a[..a.len() - 1] == b[..b.len() - 1] {
        return "sibling";
    }
    "other-card"
}

fn run_with(p: &CaoCompiledProgram, knobs: &Knobs, fail_alloc: Option<u64>) -> RunOut {
    let cfg = CtlConfig { gc: GcPlan::Natural, fail_alloc, ..Default::default() };
    run_program(p, knobs, cfg, HostPlan::default())
}

/// the program run twice on one VM; the outcome of the second run (the first one ended inside
/// the call chain, with the frames of all active calls on the call stack)
fn second_run_on_a_reused_vm(p: &CaoCompiledProgram, knobs: &Knobs) -> RunOut {
    let ctl = VmCtl::new(CtlConfig { gc: GcPlan::Natural, ..Default::default() });
    ctl.install();
    let Some(mut vm) = new_vm(&ctl, knobs, HostPlan::default()) else {
        VmCtl::uninstall();
        let mut out = empty_out();
        out.result = "<vm-init-failed>".into();
        return out;
    };
    let r1 = catch(|| vm.run(p));
    let mut out = collect(&mut vm, &ctl, p, r1, false);
    if out.panic.is_none() && !out.aborted {
        vm.auxiliary_data.ncalls = 0;
        let r2 = catch(|| vm.run(p));
        out = collect(&mut vm, &ctl, p, r2, false);
    }
    teardown(vm, &ctl, &mut out);
    VmCtl::uninstall();
    out.counters = ctl.counters();
    out
}

pub fn examine(spec: &PathSpec, ctx: Option<&mut CaseCtx>) -> Vec<(Json, String)> {
    let mut ctxo = ctx;
    let mut v = vec![];
    let b = build(spec);
    let Some(site_loc) = locate(&b.module, b.site) else {
        return vec![(json!({"inv": "harness-site-not-found"}), "site card not found in the built module".into())];
    };
    let site_card_kind = resolve(&b.module, &Trace { namespace: site_loc.0.iter().map(|s| s.clone().into_boxed_str()).collect(), index: site_loc.1.clone() })
        .map(card_kind_name)
        .unwrap_or_default();
    let parent_kind = {
        let mut pi = site_loc.1.clone();
        if pi.card_index.indices.len() > 1 {
            pi.pop_subindex();
            resolve(&b.module, &Trace { namespace: site_loc.0.iter().map(|s| s.clone().into_boxed_str()).collect(), index: pi }).map(card_kind_name).unwrap_or_default()
        } else {
            "function-body".to_string()
        }
    };
    let slot = *site_loc.1.card_index.indices.last().unwrap_or(&0);
    // ---- compile errors
    if matches!(spec.kind, ErrKind::CompileEmptyVar | ErrKind::CompileBadJump | ErrKind::CompileBadLoopVar) {
        match compile_module(&b.module) {
            Compiled::Ok(_) => v.push((json!({"inv": "planted-compile-error-accepted", "kind": format!("{:?}", spec.kind)}), "the module with a planted invalid card compiled".into())),
            Compiled::Panic(p) => v.push((json!({"inv": "compile-panic", "site": panic_site(&p)}), format!("compile panicked: {}", p.msg))),
            Compiled::Err(e) => {
                if let Some(ctx) = ctxo.as_deref_mut() {
                    ctx.count("reach:compile_error_cases", 1);
                }
                match &e.loc {
                    None => v.push((json!({"inv": "compile-error-without-location", "kind": format!("{:?}", spec.kind)}), format!("{e}"))),
                    Some(t) => {
                        let ok = resolve(&b.module, t).map(|c| c.id == b.site).unwrap_or(false);
                        if !ok {
                            v.push((
                                json!({"inv": "compile-error-location", "kind": format!("{:?}", spec.kind), "resolved": relation(&b.module, &site_loc, t)}),
                                format!("compile error {:?}: location resolves to {} but the offending card is {} at {:?}.{}", e.payload, describe(&b.module, t), site_card_kind, site_loc.0, site_loc.1),
                            ));
                        }
                    }
                }
            }
        }
        return v;
    }
    // ---- runtime errors
    let p = match compile_module(&b.module) {
        Compiled::Ok(p) => p,
        Compiled::Err(e) => return vec![(json!({"inv": "harness-program-does-not-compile"}), format!("{e}"))],
        Compiled::Panic(p) => return vec![(json!({"inv": "compile-panic", "site": panic_site(&p)}), p.msg)],
    };
    let mut knobs = Knobs { budget: 100_000, ..Default::default() };
    let mut fail_alloc = None;
    if b.mark_present {
        // dry run to read what `mark` saw
        let dry = run_with(&p, &knobs, None);
        let Some(mk) = dry.host_log.iter().find(|c| c.name == "mark") else {
            return vec![(json!({"inv": "harness-mark-not-reached"}), format!("mark was not called; run ended with {}", dry.result))];
        };
        match spec.kind {
            ErrKind::OutOfMemory => fail_alloc = Some(mk.allocs),
            // mark's CallNative is dispatch D, SetGlobalVar D+1, the site D+2: budget N lets N-1 run
            ErrKind::Timeout => knobs.budget = mk.dispatches + 2,
            // capacity S holds S-1 values; at mark the stack held H values
            ErrKind::Stackoverflow => knobs.value_stack = mk.stack_height + 1,
            // (mark's own argument is part of the height it reports) the closure object fits, the
            // copy made for registering the upvalue does not
            ErrKind::StackoverflowAtCapture => knobs.value_stack = mk.stack_height + 1,
            ErrKind::CallStackOverflow => knobs.call_stack = mk.call_depth,
            _ => {}
        }
    }
    // ---- a timeout can be provoked at every instruction: sweep the budget over the whole run;
    // wherever it expires, trace[0] must resolve to a card and so must every entry after it
    {
        let free = run_with(&p, &Knobs { budget: 100_000, ..Default::default() }, None);
        let t = free.counters.dispatches;
        let cap = if ctxo.as_deref().map(|c| c.tier == Tier::Thorough).unwrap_or(false) { 600 } else { 120 };
        if free.panic.is_none() && t >= 2 && t < 50_000 {
            let step = (t / cap).max(1);
            let mut n = 2u64;
            while n <= t {
                let o = run_with(&p, &Knobs { budget: n, ..Default::default() }, None);
                if let Some(ctx) = ctxo.as_deref_mut() {
                    ctx.evaluation();
                    ctx.count("budget_sweep_runs", 1);
                }
                if innermost(&o.result) == "Timeout" && o.panic.is_none() {
                    if let Some(ctx) = ctxo.as_deref_mut() {
                        ctx.count(&format!("reach:sweep_timeout_before:{}", crate::ctl::vmctl::opcode_name(o.counters.last_op)), 1);
                    }
                    let bad = if o.trace.is_empty() {
                        Some("no trace entry at all".to_string())
                    } else {
                        o.trace
                            .iter()
                            .enumerate()
                            .find(|(i, t)| resolve(&b.module, t).is_none() && !(*i == 0 && is_function_epilogue(&b.module, t)))
                            .map(|(i, t)| format!("trace[{i}] = {t} resolves to no card"))
                            .or_else(|| {
                                // a card that produces no code cannot be the one whose instruction failed
                                resolve(&b.module, &o.trace[0])
                                    .filter(|c| matches!(c.body, CardBody::Comment(_)))
                                    .map(|_| format!("trace[0] = {} resolves to a Comment card", o.trace[0]))
                            })
                    };
                    if let Some(bad) = bad {
                        v.push((
                            json!({"inv": "timeout-trace-resolves-to-nothing", "before": crate::ctl::vmctl::opcode_name(o.counters.last_op)}),
                            format!("budget {n} (expires before {}): {bad}; trace = [{}]", crate::ctl::vmctl::opcode_name(o.counters.last_op), o.trace.iter().map(|t| describe(&b.module, t)).collect::<Vec<_>>().join("; ")),
                        ));
                        break;
                    }
                }
                n += step;
            }
        }
    }
    // bit 16: the judged run is the second one on its VM (faults placed through `mark` are
    // positions in the first run, those kinds run once)
    let reused = (spec.nested >> 16) & 1 == 1 && !b.mark_present;
    let out = if reused { second_run_on_a_reused_vm(&p, &knobs) } else { run_with(&p, &knobs, fail_alloc) };
    if let Some(ctx) = ctxo.as_deref_mut() {
        ctx.evaluation();
        ctx.count("dispatches", out.counters.dispatches);
        ctx.count("reach:judged_run_is_the_second_on_its_vm", reused as u64);
    }
    if let Some(pn) = &out.panic {
        return vec![(json!({"inv": "panic", "site": panic_site(pn)}), format!("panic {} at {}", pn.msg, panic_site(pn)))];
    }
    let want_kind = match spec.kind {
        ErrKind::NativeFails => "InvalidArgument",
        ErrKind::MissingNative => "ProcedureNotFound",
        ErrKind::MissingVariable => "VarNotFound",
        ErrKind::WrongOperand => "InvalidArgument",
        ErrKind::NotAFunction => "InvalidArgument",
        ErrKind::OutOfMemory => "OutOfMemory",
        ErrKind::Timeout => "Timeout",
        ErrKind::Stackoverflow | ErrKind::StackoverflowAtCapture => "Stackoverflow",
        ErrKind::CallStackOverflow => "CallStackOverflow",
        _ => "",
    };
    if innermost(&out.result) != want_kind {
        // the fault did not land on the site (e.g. a context allocates before it): not judged
        if let Some(ctx) = ctxo.as_deref_mut() {
            ctx.count("fault_missed_site", 1);
        }
        return v;
    }
    if let Some(ctx) = ctxo.as_deref_mut() {
        ctx.count(&format!("fault:{:?}_at_site", spec.kind), 1);
        ctx.count(&format!("reach:parent:{parent_kind}"), 1);
        ctx.count(&format!("reach:depth_{}", spec.depth), 1);
    }
    let trace = &out.trace;
    let kind = format!("{:?}", spec.kind);
    if trace.is_empty() {
        v.push((json!({"inv": "empty-trace", "kind": kind}), format!("{} without any trace entry", out.result)));
        return v;
    }
    // for the faults placed by `mark` the blamed instruction must be the site's; with contexts in
    // between other cards run first, so those kinds are generated without contexts (see gen)
    let ok0 = resolve(&b.module, &trace[0]).map(|c| c.id == b.site).unwrap_or(false);
    if !ok0 {
        v.push((
            json!({"inv": "trace0-is-not-the-failing-card", "kind": kind, "resolved": relation(&b.module, &site_loc, &trace[0])}),
            format!(
                "{}: trace[0] resolves to {} but the failing card is {} (child {} of {}) at {:?}.{}",
                out.result, describe(&b.module, &trace[0]), site_card_kind, slot, parent_kind, site_loc.0, site_loc.1
            ),
        ));
        return v;
    }
    // the chain. Contexts add closure calls between the site and its function: those call cards
    // are not part of the generated chain, so the chain is matched as a subsequence at the end
    let rest = &trace[1..];
    let resolved_ids: Vec<Option<CardId>> = rest.iter().map(|t| resolve(&b.module, t).map(|c| c.id)).collect();
    let mut pos = 0usize;
    let mut missing = None;
    for (ci, want) in b.chain.iter().enumerate() {
        match resolved_ids[pos..].iter().position(|r| r == &Some(*want)) {
            Some(off) => pos += off + 1,
            None => {
                missing = Some(ci);
                break;
            }
        }
    }
    if let Some(ci) = missing {
        v.push((
            json!({"inv": "call-chain", "kind": kind}),
            format!(
                "{}: call card #{ci} (innermost first) of the chain of {} is missing from trace[1..] = [{}]",
                out.result,
                b.chain.len(),
                rest.iter().map(|t| describe(&b.module, t)).collect::<Vec<_>>().join("; ")
            ),
        ));
    } else if spec.contexts.is_empty() {
        // exact: chain (+ optional program entry)
        if rest.len() != b.chain.len() && rest.len() != b.chain.len() + 1 {
            v.push((
                json!({"inv": "call-chain-length", "kind": kind}),
                format!("trace has {} entries after the failing card, the call chain has {}", rest.len(), b.chain.len()),
            ));
        }
    }
    // namespaces of the chain entries
    for (t, r) in rest.iter().zip(resolved_ids.iter()) {
        if r.is_none() {
            v.push((json!({"inv": "trace-entry-resolves-to-nothing", "kind": kind}), format!("trace entry {t} does not resolve to a card")));
            break;
        }
    }
    v
}

impl Check for C15 {
    fn id(&self) -> &'static str {
        "C15"
    }
    fn level(&self) -> &'static str {
        "fault_enumeration"
    }
    fn rule(&self) -> String {
        "one case = one seeded path program: a chain of 0-5 script calls (static call statement, call inside an expression, dynamic \
         call of a function value; functions in the root module or in submodules) leads to one site card wrapped in 0-3 contexts \
         drawn from 24 (card kind, child position) pairs (binary / unary operators, property / row access, native / static / \
         dynamic call arguments and callee, array elements, closure bodies, if / if-else / repeat / while / for-each conditions \
         and bodies, composite children, set-property / append / pop / set-var operands). The error at the site is provoked by \
         the simulator: failing host stub, missing native, missing variable, wrongly typed operand, non-function callee, and - \
         placed from what a `mark` stub reports just before the site - a failing allocation, a budget expiring on the site's \
         instruction, a value stack / call stack of exactly insufficient size (also a value stack that runs full exactly while \
         a closure captures a variable); plus planted compile errors (empty variable \
         name, unresolvable call target, a ForEach with an empty loop-variable name). In front of the interesting card sit 0-3 \
         cards that are assignments, comments, empty composites or loops / ifs with comment bodies; in half of the programs the \
         site and the calls are bare expression statements (the first instruction of the statement is the card's own), and a \
         one-card function sits in front of a module boundary; in half of the programs whose error needs no placed fault the judged \
         run is the second one on its VM (the first ended inside the call chain). The budget is also swept over \
         the whole run: wherever it expires every trace entry must resolve to a card (or trace[0] to the function epilogue) and \
         never to a Comment card. Non-trivial = the provoked error landed on the site; distinct = distinct spec hash."
            .to_string()
    }
    fn cases(&self, tier: Tier) -> u64 {
        match tier {
            Tier::Quick => 30_000,
            Tier::Thorough => 1_500_000,
        }
    }
    fn run_case(&self, ctx: &mut CaseCtx) {
        let mut wr = ctx.rng("workload");
        let mut spec = gen_spec(&mut wr);
        if matches!(spec.kind, ErrKind::OutOfMemory | ErrKind::Timeout | ErrKind::Stackoverflow | ErrKind::CallStackOverflow | ErrKind::StackoverflowAtCapture) {
            // the fault is placed on the instruction right after `mark`: no cards in between
            spec.contexts.clear();
        }
        let sv = serde_json::to_value(&spec).unwrap();
        if ctx.case < 3 {
            ctx.sample = Some(json!({"spec": sv, "module": module_json(&build(&spec).module)}));
        }
        ctx.progress("run");
        let before = ctx.stats.get("evaluations").copied().unwrap_or(0);
        let vs = examine(&spec, Some(ctx));
        if ctx.stats.get("evaluations").copied().unwrap_or(0) == before {
            ctx.evaluation();
        }
        let landed = ctx.stats.keys().any(|k| k.starts_with("fault:") || k == "reach:compile_error_cases");
        if landed {
            ctx.nontrivial(crate::kernel::stable_hash_json(&sv));
        }
        for (sig, what) in vs {
            if ctx.violations.iter().any(|v| v.sig == sig) {
                continue;
            }
            ctx.violation(sig, what, json!({"spec": sv, "module": module_json(&build(&spec).module)}));
        }
    }
    fn minimise(&self, replay: &Json, sig: &Json) -> Json {
        let Some(spec) = replay.get("spec").and_then(|s| serde_json::from_value::<PathSpec>(s.clone()).ok()) else {
            return replay.clone();
        };
        // shrink: fewer contexts, smaller depth, no prefix
        let mut cur = spec.clone();
        let fails = |s: &PathSpec| examine(s, None).iter().any(|(x, _)| x == sig);
        while !cur.contexts.is_empty() {
            let mut cand = cur.clone();
            cand.contexts.remove(0);
            if fails(&cand) {
                cur = cand;
                continue;
            }
            let mut cand = cur.clone();
            cand.contexts.pop();
            if fails(&cand) {
                cur = cand;
                continue;
            }
            break;
        }
        while cur.depth > 0 {
            let mut cand = cur.clone();
            cand.depth -= 1;
            cand.call_style.truncate(cand.depth);
            cand.prefix.truncate(cand.depth + 1);
            if fails(&cand) {
                cur = cand;
            } else {
                break;
            }
        }
        let mut cand = cur.clone();
        cand.prefix = vec![0; cand.depth + 1];
        cand.nested = 0;
        if fails(&cand) {
            cur = cand;
        }
        json!({"spec": cur, "module": module_json(&build(&cur).module)})
    }
    fn replay(&self, replay: &Json, ctx: &mut CaseCtx) {
        let Some(spec) = replay.get("spec").and_then(|s| serde_json::from_value::<PathSpec>(s.clone()).ok()) else { return };
        ctx.progress("run");
        for (sig, what) in examine(&spec, Some(ctx)) {
            if !ctx.violations.iter().any(|v| v.sig == sig) {
                ctx.violation(sig, what, replay.clone());
            }
        }
    }
    fn assumptions(&self) -> Vec<String> {
        vec![
            "a Timeout is attributed to the instruction that was about to execute; faults placed from `mark` are only judged when the provoked error kind actually occurs".into(),
            "contexts that need statement position are entered through an immediately called closure; the call cards those closures add to the trace are allowed between the generated chain entries (the chain is matched as an ordered subsequence), and exact chain length is only required for sites without contexts".into(),
            "chains through a native's run_function are not generated (what such frames should resolve to is not stated by the property)".into(),
            "the compile-error half is seeded input search without a fault dimension".into(),
        ]
    }
    fn components(&self) -> Json {
        json!({"real": ["compiler (index bookkeeping, trace table)", "VM error paths / payload_to_error", "Module::get_card", "allocator (for the failing allocation)"],
               "stub": ["host natives fail / mark / t3"]})
    }
    fn required_probes(&self, _tier: Tier) -> Vec<String> {
        vec![
            "fault:NativeFails_at_site".into(),
            "fault:OutOfMemory_at_site".into(),
            "fault:Timeout_at_site".into(),
            "fault:Stackoverflow_at_site".into(),
            "fault:CallStackOverflow_at_site".into(),
            "fault:MissingVariable_at_site".into(),
            "reach:compile_error_cases".into(),
            "reach:judged_run_is_the_second_on_its_vm".into(),
            "reach:depth_5".into(),
        ]
    }
}
