//! C13 - The handle table is a faithful map on non-zero handles.
//!
//! Workload: operation histories on `HandleTable<Tracked, A>` with handles chosen to share home
//! slots / wrap around, every initial capacity, each insertion path.
//! Fault space: three allocators (FaultAlloc stub, SysAllocator, the AllocProxy of a real VM) and,
//! with FaultAlloc, fail-at-j for every allocation j made inside a fallible operation.
//! Oracle: BTreeMap model after every operation, bounded probe sequences (hook H7),
//! drop-exactly-once, empty allocation ledger.
use crate::ctl::fault_alloc::{DropLog, FaultAlloc, Tracked};
use crate::kernel::worker::{catch, short_path};
use crate::kernel::{prng, CaseCtx, Check, Rng, Tier};
use cao_lang::collections::handle_table::{Handle, HandleTable, MapError};
use cao_lang::verif::{Allocator, SysAllocator};
use serde::{Deserialize, Serialize};
use serde_json::{json, Value};
use std::collections::BTreeMap;
use std::rc::Rc;

pub struct C13;

#[derive(Clone, Debug, Serialize, Deserialize, PartialEq)]
pub enum Op {
    Insert(u32, u64),
    Remove(u32),
    Get(u32),
    GetMut(u32, u64),
    Contains(u32),
    Entry(u32, u64),
    Reserve(usize),
    Clear,
    CloneSwap,
    Iter,
    Index(u32),
    InsertZero,
    /// the current contents take the deserialisation path into a fresh table (another way entries
    /// get in), which is then asked for every handle of the pool
    Deserialised,
}

impl Op {
    fn name(&self) -> &'static str {
        match self {
            Op::Insert(..) => "insert",
            Op::Remove(..) => "remove",
            Op::Get(..) => "get",
            Op::GetMut(..) => "get_mut",
            Op::Contains(..) => "contains",
            Op::Entry(..) => "entry",
            Op::Reserve(..) => "reserve",
            Op::Clear => "clear",
            Op::CloneSwap => "clone",
            Op::Iter => "iter",
            Op::Index(..) => "index",
            Op::InsertZero => "insert_zero",
            Op::Deserialised => "deserialised",
        }
    }
    fn fallible(&self) -> bool {
        matches!(self, Op::Insert(..) | Op::Reserve(..) | Op::InsertZero)
    }
}

#[derive(Clone, Debug, Serialize, Deserialize)]
pub struct History {
    pub init_cap: usize,
    pub ops: Vec<Op>,
}

fn handle(raw: u32) -> Handle {
    bytemuck::cast::<u32, Handle>(raw)
}
fn raw_of(h: Handle) -> u32 {
    h.value()
}

const MULT: u32 = 2654435769;
fn mult_inverse() -> u32 {
    // Newton iteration for the inverse of an odd number modulo 2^32
    let a = MULT;
    let mut x: u32 = a; // a*a = 1 mod 8
    for _ in 0..5 {
        x = x.wrapping_mul(2u32.wrapping_sub(a.wrapping_mul(x)));
    }
    debug_assert_eq!(a.wrapping_mul(x), 1);
    x
}

/// handle whose (raw * MULT) has the given value, i.e. whose home slot is `product & (cap-1)`
fn handle_with_product(product: u32) -> u32 {
    product.wrapping_mul(mult_inverse())
}

pub fn cap_class(c: usize) -> &'static str {
    if c == 0 {
        "0"
    } else if c == 1 {
        "1"
    } else if c.is_power_of_two() {
        "pow2"
    } else {
        "non-pow2"
    }
}

fn gen_history(rng: &mut Rng, tier: Tier) -> History {
    // S5: initial capacity knob
    let init_cap = match rng.below(10) {
        0..=4 => rng.below(41) as usize,
        5..=6 => 1usize << rng.below(11),
        // any size a caller may ask for (the rounding to a power of two has to work for all of them)
        7 => 41 + rng.usize(6000),
        _ => 16,
    };
    // key pool
    let npool = 4 + rng.usize(12);
    let mode = rng.below(4);
    let mut pool: Vec<u32> = Vec::new();
    let slot_bits = rng.below(64) as u32;
    while pool.len() < npool {
        let raw = match mode {
            // random handles
            0 => rng.next_u64() as u32,
            // all share the low 6 bits of the product: same home slot for every capacity <= 64
            1 => handle_with_product(((rng.next_u64() as u32) << 6) | slot_bits),
            // home slots at the very end of the bucket array for capacities up to 64 (wrap-around)
            2 => handle_with_product(((rng.next_u64() as u32) << 6) | (63 - rng.below(3) as u32)),
            // consecutive products: long runs of adjacent occupied slots
            _ => handle_with_product(
                ((rng.next_u64() as u32) << 8) | ((slot_bits + pool.len() as u32) & 0xff),
            ),
        };
        if raw != 0 && !pool.contains(&raw) {
            pool.push(raw);
        }
    }
    // insertion path mode
    let path = rng.below(5);
    let nops = match tier {
        Tier::Quick => 8 + rng.usize(40),
        Tier::Thorough => 8 + rng.usize(72),
    };
    let mut ops = Vec::with_capacity(nops);
    let mut tag = 1u64;
    if path == 3 {
        ops.push(Op::Reserve(rng.usize(40)));
    }
    for _ in 0..nops {
        let k = *rng.pick(&pool);
        let w: [u32; 13] = match path {
            // insert-only growth
            1 => [50, 12, 8, 3, 5, 0, 2, 1, 2, 3, 3, 1, 2],
            // entry-only growth
            2 | 3 => [0, 12, 8, 3, 5, 50, 2, 1, 2, 3, 3, 0, 2],
            // removal heavy
            4 => [25, 30, 10, 3, 8, 10, 1, 1, 2, 4, 3, 1, 2],
            _ => [22, 14, 10, 4, 6, 18, 3, 2, 3, 4, 4, 1, 2],
        };
        let op = match rng.weighted(&w) {
            0 => {
                tag += 1;
                Op::Insert(k, tag)
            }
            1 => Op::Remove(k),
            2 => Op::Get(k),
            3 => {
                tag += 1;
                Op::GetMut(k, tag)
            }
            4 => Op::Contains(k),
            5 => {
                tag += 1;
                Op::Entry(k, tag)
            }
            6 => Op::Reserve(if rng.chance(1, 6) { 200 + rng.usize(4000) } else { rng.usize(24) }),
            7 => Op::Clear,
            8 => Op::CloneSwap,
            9 => Op::Iter,
            10 => Op::Index(k),
            11 => Op::InsertZero,
            _ => Op::Deserialised,
        };
        ops.push(op);
    }
    History { init_cap, ops }
}

#[derive(Debug, Clone)]
pub struct Fail {
    pub op_index: i64, // -1 = construction, ops.len() = teardown
    pub op: String,
    pub prev: String,
    pub diverged: String,
    pub detail: String,
}

#[derive(Default)]
pub struct RunInfo {
    /// for each op (index 0 = construction): range of allocator call indices made inside it
    pub alloc_ranges: Vec<(u64, u64)>,
    pub grew: u64,
    pub removed_present: u64,
    pub failed_ops: u64,
    pub states: std::collections::BTreeSet<(usize, usize)>,
    pub fail: Option<Fail>,
}

fn panic_kind(p: &crate::kernel::worker::PanicRecord) -> (String, String) {
    if let Some(site) = p.msg.strip_prefix("nontermination:") {
        ("nontermination".to_string(), site.to_string())
    } else {
        (
            "panic".to_string(),
            format!("{}:{} {}", short_path(&p.file), p.line, p.msg),
        )
    }
}

/// Execute a history on a table using allocator `alloc`. `calls` reports the allocator's call
/// counter (0 for allocators that do not count), `fired` how many injected failures fired so far.
/// value types the histories are run with
pub trait Val: Clone {
    fn make(log: &Rc<DropLog>, tag: u64) -> Self;
    fn tag(&self) -> u64;
}
impl Val for Tracked {
    fn make(log: &Rc<DropLog>, tag: u64) -> Self {
        log.make(tag)
    }
    fn tag(&self) -> u64 {
        self.tag
    }
}
/// a value without drop glue (std::mem::needs_drop is false), like the handles, labels and
/// variable ids the compiler and the VM keep in their tables
#[derive(Clone, Copy)]
pub struct Plain(pub u64);
impl Val for Plain {
    fn make(_log: &Rc<DropLog>, tag: u64) -> Self {
        Plain(tag)
    }
    fn tag(&self) -> u64 {
        self.0
    }
}

pub fn run_history<V: Val, A: Allocator + Clone>(
    h: &History,
    alloc: A,
    calls: &dyn Fn() -> u64,
    fired: &dyn Fn() -> u64,
    index_fn: Option<&dyn Fn(&HandleTable<V, A>, Handle) -> u64>,
) -> RunInfo {
    let mut info = RunInfo::default();
    let log = Rc::new(DropLog::default());
    let mut model: BTreeMap<u32, u64> = BTreeMap::new();
    let mut pool: Vec<u32> = vec![];
    for op in &h.ops {
        match op {
            Op::Insert(k, _)
            | Op::Remove(k)
            | Op::Get(k)
            | Op::GetMut(k, _)
            | Op::Contains(k)
            | Op::Entry(k, _)
            | Op::Index(k) => {
                if !pool.contains(k) {
                    pool.push(*k)
                }
            }
            _ => {}
        }
    }
    pool.sort();

    macro_rules! fail {
        ($i:expr, $op:expr, $prev:expr, $d:expr, $detail:expr) => {{
            info.fail = Some(Fail {
                op_index: $i,
                op: $op.to_string(),
                prev: $prev.to_string(),
                diverged: $d.to_string(),
                detail: $detail,
            });
        }};
    }

    // construction
    let c0 = calls();
    let f0 = fired();
    let built = catch(|| HandleTable::<V, A>::with_capacity(h.init_cap, alloc.clone()));
    info.alloc_ranges.push((c0, calls()));
    let mut table = match built {
        Err(p) => {
            let (k, d) = panic_kind(&p);
            fail!(-1, "with_capacity", "", k, d);
            return info;
        }
        Ok(Err(MapError::AllocError(_))) if fired() > f0 => {
            info.failed_ops += 1;
            return info;
        }
        Ok(Err(e)) => {
            fail!(-1, "with_capacity", "", "unexpected-error", format!("{e:?}"));
            return info;
        }
        Ok(Ok(t)) => t,
    };

    let mut prev = "with_capacity".to_string();
    let mut poisoned = false;
    for (i, op) in h.ops.iter().enumerate() {
        let c0 = calls();
        let f0 = fired();
        let cap_before = table.capacity();
        let opname = op.name();
        // the operation itself, isolated
        let r: Result<Result<(), (String, String)>, _> = catch(|| -> Result<(), (String, String)> {
            match op {
                Op::Insert(k, tag) => match table.insert(handle(*k), V::make(&log, *tag)) {
                    Ok(r) => {
                        if r.tag() != *tag {
                            return Err(("stale-value".into(), format!("insert returned tag {}", r.tag())));
                        }
                        model.insert(*k, *tag);
                    }
                    Err(MapError::AllocError(_)) if fired() > f0 => {
                        info.failed_ops += 1;
                    }
                    Err(e) => return Err(("unexpected-error".into(), format!("{e:?}"))),
                },
                Op::InsertZero => match table.insert(handle(0), V::make(&log, 0)) {
                    Err(MapError::InvalidHandle) => {}
                    Err(MapError::AllocError(_)) if fired() > f0 => {
                        info.failed_ops += 1;
                    }
                    Ok(_) => return Err(("zero-handle-accepted".into(), String::new())),
                    Err(e) => return Err(("unexpected-error".into(), format!("{e:?}"))),
                },
                Op::Remove(k) => {
                    let got = table.remove(handle(*k));
                    let want = model.remove(k);
                    let got_tag = got.as_ref().map(|t| t.tag());
                    drop(got);
                    if got_tag != want {
                        let d = match (got_tag, want) {
                            (None, Some(_)) => "lost-handle",
                            (Some(_), None) => "phantom-handle",
                            _ => "stale-value",
                        };
                        return Err((d.into(), format!("remove({k}) got {got_tag:?} want {want:?}")));
                    }
                    if want.is_some() {
                        info.removed_present += 1;
                    }
                }
                Op::Get(k) => {
                    let got = table.get(handle(*k)).map(|t| t.tag());
                    let want = model.get(k).copied();
                    if got != want {
                        let d = match (got, want) {
                            (None, Some(_)) => "lost-handle",
                            (Some(_), None) => "phantom-handle",
                            _ => "stale-value",
                        };
                        return Err((d.into(), format!("get({k}) got {got:?} want {want:?}")));
                    }
                }
                Op::GetMut(k, tag) => {
                    let want = model.get(k).copied();
                    match table.get_mut(handle(*k)) {
                        Some(r) => {
                            if Some(r.tag()) != want {
                                let d = if want.is_none() { "phantom-handle" } else { "stale-value" };
                                return Err((d.into(), format!("get_mut({k}) got {} want {want:?}", r.tag())));
                            }
                            *r = V::make(&log, *tag);
                            model.insert(*k, *tag);
                        }
                        None => {
                            if want.is_some() {
                                return Err(("lost-handle".into(), format!("get_mut({k}) none want {want:?}")));
                            }
                        }
                    }
                }
                Op::Contains(k) => {
                    let got = table.contains(handle(*k));
                    if got != model.contains_key(k) {
                        let d = if got { "phantom-handle" } else { "lost-handle" };
                        return Err((d.into(), format!("contains({k}) = {got}")));
                    }
                }
                Op::Entry(k, tag) => {
                    let want = model.get(k).copied().unwrap_or(*tag);
                    let got = table.entry(handle(*k)).or_insert_with(|| V::make(&log, *tag)).tag();
                    model.entry(*k).or_insert(*tag);
                    if got != want {
                        return Err(("stale-value".into(), format!("entry({k}) got {got} want {want}")));
                    }
                }
                Op::Reserve(n) => match table.reserve(*n) {
                    Ok(()) => {}
                    Err(MapError::AllocError(_)) if fired() > f0 => {
                        info.failed_ops += 1;
                    }
                    Err(e) => return Err(("unexpected-error".into(), format!("{e:?}"))),
                },
                Op::Clear => {
                    table.clear();
                    model.clear();
                }
                Op::CloneSwap => {
                    let c = table.clone();
                    let old = std::mem::replace(&mut table, c);
                    drop(old);
                }
                Op::Iter => {
                    let mut got: Vec<(u32, u64)> = table.iter().map(|(h, t)| (raw_of(h), t.tag())).collect();
                    got.sort();
                    let want: Vec<(u32, u64)> = model.iter().map(|(k, v)| (*k, *v)).collect();
                    if got != want {
                        return Err(("iteration".into(), format!("iter got {got:?} want {want:?}")));
                    }
                }
                Op::Deserialised => {
                    let json = serde_json::Value::Object(model.iter().map(|(k, v)| (k.to_string(), json!(v))).collect());
                    let t2: HandleTable<u64> = match serde_json::from_value(json) {
                        Ok(t) => t,
                        Err(e) => return Err(("unexpected-error".into(), format!("deserialising {} entries: {e}", model.len()))),
                    };
                    if t2.len() != model.len() {
                        return Err(("len".into(), format!("deserialised table has len {} want {}", t2.len(), model.len())));
                    }
                    for k in pool.iter() {
                        let got = t2.get(handle(*k)).copied();
                        let want = model.get(k).copied();
                        if got != want {
                            let d = if got.is_none() { "lost-handle" } else if want.is_none() { "phantom-handle" } else { "stale-value" };
                            return Err((d.into(), format!("deserialised table: get({k}) got {got:?} want {want:?}")));
                        }
                    }
                }
                Op::Index(k) => {
                    if let (Some(f), Some(want)) = (index_fn, model.get(k)) {
                        let got = f(&table, handle(*k));
                        if got != *want {
                            return Err(("stale-value".into(), format!("index({k}) got {got} want {want}")));
                        }
                    }
                }
            }
            Ok(())
        });
        info.alloc_ranges.push((c0, calls()));
        match r {
            Err(p) => {
                let (k, d) = panic_kind(&p);
                fail!(i as i64, opname, prev, k, d);
                poisoned = true;
                break;
            }
            Ok(Err((d, detail))) => {
                fail!(i as i64, opname, prev, d, detail);
                break;
            }
            Ok(Ok(())) => {}
        }
        if table.capacity() > cap_before {
            info.grew += 1;
        }
        info.states.insert((table.capacity(), table.len()));
        // cross-invariants after every operation: len, and membership of every key ever used
        let post = catch(|| -> Result<(), (String, String)> {
            if table.len() != model.len() {
                return Err(("len".into(), format!("len {} want {}", table.len(), model.len())));
            }
            for k in pool.iter() {
                let got = table.get(handle(*k)).map(|t| t.tag());
                let want = model.get(k).copied();
                if got != want {
                    let d = match (got, want) {
                        (None, Some(_)) => "lost-handle",
                        (Some(_), None) => "phantom-handle",
                        _ => "stale-value",
                    };
                    return Err((d.into(), format!("after {opname}: get({k}) got {got:?} want {want:?}")));
                }
            }
            Ok(())
        });
        match post {
            Err(p) => {
                let (k, d) = panic_kind(&p);
                fail!(i as i64, opname, prev, k, d);
                poisoned = true;
                break;
            }
            Ok(Err((d, detail))) => {
                fail!(i as i64, opname, prev, d, detail);
                break;
            }
            Ok(Ok(())) => {}
        }
        // every value the model holds must still be alive
        prev = opname.to_string();
    }

    if poisoned {
        // the table may be in a state in which Drop does not terminate; leak it
        std::mem::forget(table);
        return info;
    }
    let had_fail = info.fail.is_some();
    let dropped = catch(move || drop(table));
    if let Err(p) = dropped {
        if !had_fail {
            let (k, d) = panic_kind(&p);
            fail!(h.ops.len() as i64, "drop", prev, k, d);
        }
        return info;
    }
    if !had_fail {
        // drop-exactly-once
        let created = log.created.get();
        for id in 0..created {
            let n = log.drops_of(id);
            if n != 1 {
                let d = if n == 0 { "leak" } else { "double-drop" };
                fail!(h.ops.len() as i64, "drop", prev, d, format!("value #{id} dropped {n} times"));
                break;
            }
        }
    }
    info
}

fn sig_of(f: &Fail, init_cap: usize, fault: bool) -> Value {
    let crashy = f.diverged == "nontermination" || f.diverged == "panic";
    json!({
        // a model divergence is classified by the operation that showed it, a panic /
        // non-termination by the source site
        "op": if crashy { String::new() } else { f.op.clone() },
        "diverged": f.diverged,
        "init_cap": cap_class(init_cap), "fault": fault,
        "site": if crashy { f.detail.split(' ').next().unwrap_or("").to_string() } else { String::new() },
    })
}

/// Run with FaultAlloc (optionally failing call j); returns run info + ledger errors
fn run_fault(h: &History, fail_at: Option<u64>) -> (RunInfo, Vec<String>, u64, usize) {
    let fa = FaultAlloc::new();
    fa.fail_at(fail_at);
    let fa_calls = fa.clone();
    let fa_fired = fa.clone();
    let info = run_history::<Tracked, _>(h, fa.clone(), &move || fa_calls.calls(), &move || fa_fired.fired(), None);
    let errs = fa.take_errors();
    (info, errs, fa.fired(), fa.outstanding())
}

/// the same history with a value type without drop glue, on the counting allocator, no fault
fn first_fail_plain(h: &History) -> Option<(Value, String)> {
    let fa = FaultAlloc::new();
    let info = run_history::<Plain, _>(h, fa.clone(), &|| 0, &|| 0, None);
    if let Some(f) = &info.fail {
        let mut sig = sig_of(f, h.init_cap, false);
        sig["value_type"] = json!("plain");
        return Some((sig, format!("(values without drop glue) {} #{}: {} ({})", f.op, f.op_index, f.diverged, f.detail)));
    }
    if let Some(e) = fa.take_errors().first() {
        let kind = e.split(' ').next().unwrap_or("").to_string();
        return Some((
            json!({"op":"ledger","diverged":kind,"init_cap":cap_class(h.init_cap),"fault":false,"site":"","value_type":"plain"}),
            format!("(values without drop glue) allocation ledger: {e}"),
        ));
    }
    if fa.outstanding() != 0 {
        return Some((
            json!({"op":"ledger","diverged":"leaked-block","init_cap":cap_class(h.init_cap),"fault":false,"site":"","value_type":"plain"}),
            format!("(values without drop glue) {} block(s) never released", fa.outstanding()),
        ));
    }
    None
}

fn first_fail_fault(h: &History, fail_at: Option<u64>) -> Option<(Value, String)> {
    let (info, errs, fired, outstanding) = run_fault(h, fail_at);
    if let Some(f) = &info.fail {
        return Some((sig_of(f, h.init_cap, fail_at.is_some() && fired > 0), format!("{} #{}: {} ({})", f.op, f.op_index, f.diverged, f.detail)));
    }
    if let Some(e) = errs.first() {
        let kind = e.split(' ').next().unwrap_or("").to_string();
        return Some((
            json!({"op":"ledger","diverged":kind,"init_cap":cap_class(h.init_cap),"fault":fail_at.is_some() && fired>0,"site":""}),
            format!("allocation ledger: {e}"),
        ));
    }
    if outstanding != 0 {
        return Some((
            json!({"op":"ledger","diverged":"leaked-block","init_cap":cap_class(h.init_cap),"fault":fail_at.is_some() && fired>0,"site":""}),
            format!("{outstanding} block(s) never released"),
        ));
    }
    None
}

/// greedy one-at-a-time removal of operations while the same signature persists
fn shrink(h: &History, fail_at: Option<u64>, sig: &Value, plain: bool) -> History {
    let first_fail = |c: &History| if plain { first_fail_plain(c) } else { first_fail_fault(c, fail_at) };
    let mut cur = h.clone();
    loop {
        let mut changed = false;
        let mut i = cur.ops.len();
        while i > 0 {
            i -= 1;
            if fail_at.is_some() {
                // positions of allocation indices shift when ops are removed; only shrink the tail
                break;
            }
            let mut cand = cur.clone();
            cand.ops.remove(i);
            if let Some((s, _)) = first_fail(&cand) {
                if &s == sig {
                    cur = cand;
                    changed = true;
                }
            }
        }
        if fail_at.is_some() {
            // drop ops after the failing one
            while cur.ops.len() > 1 {
                let mut cand = cur.clone();
                cand.ops.pop();
                match first_fail(&cand) {
                    Some((s, _)) if &s == sig => cur = cand,
                    _ => break,
                }
            }
        }
        if !changed {
            break;
        }
    }
    // try a simpler initial capacity of the same class
    for c in [16usize, 4, 2] {
        if cap_class(c) == cap_class(cur.init_cap) && c != cur.init_cap {
            let mut cand = cur.clone();
            cand.init_cap = c;
            if let Some((s, _)) = first_fail(&cand) {
                if &s == sig {
                    cur = cand;
                    break;
                }
            }
        }
    }
    cur
}

fn report(ctx: &mut CaseCtx, h: &History, alloc: &str, fail_at: Option<u64>, sig: Value, what: String) {
    ctx.violation(
        sig,
        format!("handle table ({alloc} allocator, init_cap {}): {what}", h.init_cap),
        json!({"history": h, "alloc": alloc, "fail_at": fail_at}),
    );
}

fn exec_all(ctx: &mut CaseCtx, h: &History, hash: u64) {
    // (1) fault-free with the counting stub allocator
    ctx.progress("run fault-free");
    ctx.evaluation();
    let (info, errs, _fired, outstanding) = run_fault(h, None);
    ctx.count("ops_executed", info.alloc_ranges.len() as u64);
    ctx.count("probe:table_grew", info.grew);
    ctx.count("probe:removed_present_handle", info.removed_present);
    ctx.count(&format!("reach:init_cap_{}", cap_class(h.init_cap)), 1);
    for s in &info.states {
        ctx.nontrivial(prng::mix(&[0xC13, s.0 as u64, s.1 as u64]));
    }
    if info.grew > 0 || info.removed_present > 0 {
        ctx.nontrivial(prng::mix(&[hash, u64::MAX]));
    }
    let mut base_failed = false;
    if let Some((sig, what)) = first_fail_fault(h, None) {
        base_failed = true;
        report(ctx, h, "fault", None, sig, what);
    }
    let _ = (errs, outstanding);
    if base_failed {
        return;
    }
    // (2) fail-at-j, exhaustive over the allocations made inside fallible operations
    let mut js = vec![];
    for (oi, (a, b)) in info.alloc_ranges.iter().enumerate() {
        let fallible = if oi == 0 { true } else { h.ops[oi - 1].fallible() };
        if fallible {
            for j in *a..*b {
                js.push(j);
            }
        }
    }
    for j in js {
        ctx.progress("run fail-at");
        ctx.evaluation();
        let (_i2, _e2, fired, _o2) = run_fault(h, Some(j));
        ctx.count("fault:alloc_fail_fired", fired);
        if fired > 0 {
            ctx.nontrivial(prng::mix(&[hash, j]));
        }
        if let Some((sig, what)) = first_fail_fault(h, Some(j)) {
            report(ctx, h, "fault", Some(j), sig, what);
            break;
        }
    }
    // (3) system allocator (real)
    ctx.progress("run sys");
    ctx.evaluation();
    let idx = |t: &HandleTable<Tracked, SysAllocator>, k: Handle| t[k].tag;
    let info = run_history::<Tracked, _>(h, SysAllocator, &|| 0, &|| 0, Some(&idx));
    if let Some(f) = &info.fail {
        let sig = sig_of(f, h.init_cap, false);
        report(ctx, h, "sys", None, sig, format!("{} #{}: {} ({})", f.op, f.op_index, f.diverged, f.detail));
    }
    // (3b) a value type without drop glue
    ctx.progress("run plain");
    ctx.evaluation();
    if let Some((sig, what)) = first_fail_plain(h) {
        report(ctx, h, "plain", None, sig, what);
    }
    // (4) the allocator of a real VM
    ctx.progress("run vm-alloc");
    ctx.evaluation();
    if let Ok(mut vm) = cao_lang::prelude::Vm::new(()) {
        // ample limit: requested capacities go up to thousands of slots, and `clone` (whose
        // signature cannot report a failed allocation) must not meet the VM's default limit
        vm.runtime_data.set_memory_limit(1 << 30);
        let proxy = vm.runtime_data.verif_view().memory.clone();
        let info = run_history::<Tracked, _>(h, proxy, &|| 0, &|| 0, None);
        if let Some(f) = &info.fail {
            let sig = sig_of(f, h.init_cap, false);
            report(ctx, h, "vm", None, sig, format!("{} #{}: {} ({})", f.op, f.op_index, f.diverged, f.detail));
        } else {
            let left = vm
                .runtime_data
                .verif_view()
                .memory
                .allocated
                .load(std::sync::atomic::Ordering::Relaxed);
            if left != 0 {
                ctx.violation(
                    json!({"op":"ledger","diverged":"vm-accounting-nonzero","init_cap":cap_class(h.init_cap),"fault":false,"site":""}),
                    format!("VM allocator still accounts {left} bytes after the table was dropped"),
                    json!({"history": h, "alloc": "vm", "fail_at": null}),
                );
            }
        }
    }
}

impl Check for C13 {
    fn id(&self) -> &'static str {
        "C13"
    }
    fn level(&self) -> &'static str {
        "fault_enumeration"
    }
    fn rule(&self) -> String {
        "one case = one seeded operation history (insert/remove/get/get_mut/contains/entry/reserve/clear/clone/iter/index, \
         8-80 ops, 4-15 handles built by inverting the Fibonacci slot function so that they collide / wrap around) on a table \
         created with a seeded initial capacity (0..40, powers of two up to 1024); it is executed fault-free on a counting stub \
         allocator, then once for EVERY allocation index inside a fallible operation with that allocation failing, then on \
         SysAllocator and on the AllocProxy of a live VM, and fault-free with a value type without drop glue. distinct_nontrivial counts distinct (capacity,count) table states \
         reached plus distinct (history, fail index) pairs whose injected failure fired plus histories with growth or a \
         removal of a present handle."
            .to_string()
    }
    fn cases(&self, tier: Tier) -> u64 {
        match tier {
            Tier::Quick => 50_000,
            Tier::Thorough => 2_000_000,
        }
    }
    fn run_case(&self, ctx: &mut CaseCtx) {
        let mut rng = ctx.rng("workload");
        let h = gen_history(&mut rng, ctx.tier);
        let hv = serde_json::to_value(&h).unwrap();
        let hash = crate::kernel::stable_hash_json(&hv);
        if ctx.case < 2 {
            ctx.sample = Some(json!({"history": hv, "schedules": "fault-free, fail-at-j for all j in fallible ops, sys, vm"}));
        }
        exec_all(ctx, &h, hash);
    }
    fn replay(&self, replay: &Value, ctx: &mut CaseCtx) {
        let Some(h) = replay.get("history").and_then(|h| serde_json::from_value::<History>(h.clone()).ok()) else {
            return;
        };
        let alloc = replay.get("alloc").and_then(|a| a.as_str()).unwrap_or("fault");
        let fail_at = replay.get("fail_at").and_then(|a| a.as_u64());
        ctx.evaluation();
        match alloc {
            "fault" => {
                if let Some((sig, what)) = first_fail_fault(&h, fail_at) {
                    ctx.violation(sig, what, replay.clone());
                }
            }
            "plain" => {
                if let Some((sig, what)) = first_fail_plain(&h) {
                    ctx.violation(sig, what, replay.clone());
                }
            }
            "sys" => {
                let idx = |t: &HandleTable<Tracked, SysAllocator>, k: Handle| t[k].tag;
                let info = run_history::<Tracked, _>(&h, SysAllocator, &|| 0, &|| 0, Some(&idx));
                if let Some(f) = &info.fail {
                    ctx.violation(sig_of(f, h.init_cap, false), f.detail.clone(), replay.clone());
                }
            }
            _ => {
                if let Ok(mut vm) = cao_lang::prelude::Vm::new(()) {
                    vm.runtime_data.set_memory_limit(1 << 30);
                    let proxy = vm.runtime_data.verif_view().memory.clone();
                    let info = run_history::<Tracked, _>(&h, proxy, &|| 0, &|| 0, None);
                    if let Some(f) = &info.fail {
                        ctx.violation(sig_of(f, h.init_cap, false), f.detail.clone(), replay.clone());
                    } else {
                        let left = vm.runtime_data.verif_view().memory.allocated.load(std::sync::atomic::Ordering::Relaxed);
                        if left != 0 {
                            ctx.violation(
                                json!({"op":"ledger","diverged":"vm-accounting-nonzero","init_cap":cap_class(h.init_cap),"fault":false,"site":""}),
                                format!("VM allocator still accounts {left} bytes"),
                                replay.clone(),
                            );
                        }
                    }
                }
            }
        }
    }
    fn minimise(&self, replay: &Value, sig: &Value) -> Value {
        let Some(h) = replay.get("history").and_then(|h| serde_json::from_value::<History>(h.clone()).ok()) else {
            return replay.clone();
        };
        let alloc = replay.get("alloc").and_then(|a| a.as_str()).unwrap_or("fault").to_string();
        let fail_at = replay.get("fail_at").and_then(|a| a.as_u64());
        // only histories on the stub allocator are shrunk (the failure reproduces there)
        let hm = if alloc == "plain" {
            shrink(&h, None, sig, true)
        } else if alloc == "fault" || first_fail_fault(&h, fail_at).map(|(s, _)| &s == sig).unwrap_or(false) {
            shrink(&h, fail_at, sig, false)
        } else {
            h.clone()
        };
        let alloc = if alloc != "fault" && first_fail_fault(&hm, fail_at).map(|(s, _)| &s == sig).unwrap_or(false) { "fault".to_string() } else { alloc };
        json!({"history": hm, "alloc": alloc, "fail_at": fail_at})
    }
    fn assumptions(&self) -> Vec<String> {
        vec![
            "allocation failure is injected only inside operations whose signature can report it (insert, reserve, with_capacity); entry() and clone() cannot report failure and are not injected".into(),
            "handles are non-zero (handle 0 is only used to check that insert rejects it)".into(),
            "step bound of hook H7: a probe sequence longer than the capacity is reported as non-termination".into(),
        ]
    }
    fn components(&self) -> Value {
        json!({"real": ["HandleTable (all operations)", "SysAllocator", "CaoLangAllocator/AllocProxy of a live VM"],
               "stub": ["FaultAlloc (counting / failing allocator standing in for the system allocator)", "Tracked (drop-counting value type)", "Plain (value type without drop glue)"]})
    }
    fn required_probes(&self, _tier: Tier) -> Vec<String> {
        vec![
            "probe:table_grew".into(),
            "probe:removed_present_handle".into(),
            "fault:alloc_fail_fired".into(),
        ]
    }
}
