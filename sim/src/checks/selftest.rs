//! Harness self-test (not a property check): exercises the driver's handling of a worker that
//! hangs, is slow, dies, or reports an ordinary violation. `caosim check SELF` must report exactly the
//! three expected signatures and one NOTE for the slow case.
use crate::kernel::{CaseCtx, Check, Tier};
use serde_json::{json, Value};

pub struct SelfTest;

impl Check for SelfTest {
    fn id(&self) -> &'static str {
        "SELF"
    }
    fn level(&self) -> &'static str {
        "exploration"
    }
    fn rule(&self) -> String {
        "driver self-test".into()
    }
    fn cases(&self, _tier: Tier) -> u64 {
        40
    }
    fn run_case(&self, ctx: &mut CaseCtx) {
        ctx.evaluation();
        ctx.nontrivial(ctx.case);
        match ctx.case {
            7 => {
                ctx.progress("spin");
                let mut x = 0u64;
                loop {
                    x = x.wrapping_mul(6364136223846793005).wrapping_add(1);
                    if x == 42 {
                        std::hint::black_box(x);
                    }
                }
            }
            11 => {
                // slow, not hung: burns about three times the watchdog allowance, then finishes
                ctx.progress("slow");
                let t = std::time::Instant::now();
                let mut x = 0u64;
                while t.elapsed().as_secs() < 6 {
                    x = x.wrapping_mul(6364136223846793005).wrapping_add(1);
                    std::hint::black_box(x);
                }
            }
            19 => {
                ctx.progress("die");
                std::process::abort();
            }
            23 => ctx.violation(json!({"self": "ordinary"}), "ordinary violation", json!({"mode": "case"})),
            _ => {}
        }
    }
    fn replay(&self, _replay: &Value, _ctx: &mut CaseCtx) {}
    fn assumptions(&self) -> Vec<String> {
        vec![]
    }
    fn components(&self) -> Value {
        json!({})
    }
    fn watchdog_s(&self, _tier: Tier) -> u64 {
        2
    }
}
