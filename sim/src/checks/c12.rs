//! C12 - The hash map is a faithful map.
//!
//! Workload: operation histories on `CaoHashMap<CKey, Tracked, A>` with a key type whose hash the
//! generator controls (home-slot collisions at every capacity of the growth path, wrap-around,
//! full 32-bit hash collisions between unequal keys, the reserved hash value 0), drop-counting
//! keys and values.
//! Fault space: FaultAlloc / SysAllocator / AllocProxy of a live VM; with FaultAlloc, fail-at-j for
//! every allocation made inside a fallible operation (insert, entry, reserve, with_capacity_in).
//! Oracle: BTreeMap model after every operation; after an injected failure the operation returns
//! Err and every previously stored entry is still retrievable (the key of the failed insert may be
//! present or absent); drop-exactly-once for keys and values; empty allocation ledger; bounded
//! probe sequences (hook H7).
use crate::ctl::fault_alloc::{DropLog, FaultAlloc, Tracked};
use crate::kernel::worker::{catch, short_path, PanicRecord};
use crate::kernel::{prng, CaseCtx, Check, Rng, Tier};
use cao_lang::collections::hash_map::{CaoHashMap, MapError};
use cao_lang::verif::{Allocator, SysAllocator};
use serde::{Deserialize, Serialize};
use serde_json::{json, Value};
use std::collections::BTreeMap;
use std::hash::{Hash, Hasher};
use std::rc::Rc;

pub struct C12;

/// logical key: (hash input word, id). Two keys are equal iff both fields are equal; the hash
/// only depends on `h`, so unequal keys with the same `h` collide in all 32 bits.
#[derive(Clone, Copy, Debug, Serialize, Deserialize, PartialEq, Eq, PartialOrd, Ord)]
pub struct K(pub u32, pub u32);

pub struct CKey {
    pub k: K,
    pub t: Tracked,
}
impl Hash for CKey {
    fn hash<H: Hasher>(&self, state: &mut H) {
        state.write(&self.k.0.to_le_bytes());
    }
}
impl PartialEq for CKey {
    fn eq(&self, o: &Self) -> bool {
        self.k == o.k
    }
}
impl Eq for CKey {}
impl Clone for CKey {
    fn clone(&self) -> Self {
        CKey {
            k: self.k,
            t: self.t.clone(),
        }
    }
}

/// key without drop glue (std::mem::needs_drop is false), same controlled hash: the VM's own
/// tables are CaoHashMap<Value, Value>, neither of which has drop glue
#[derive(Clone, Copy)]
pub struct PKey(pub K);
impl Hash for PKey {
    fn hash<H: Hasher>(&self, state: &mut H) {
        state.write(&self.0 .0.to_le_bytes());
    }
}
impl PartialEq for PKey {
    fn eq(&self, o: &Self) -> bool {
        self.0 == o.0
    }
}
impl Eq for PKey {}
#[derive(Clone, Copy)]
pub struct PVal(pub u64);

/// element types a history is executed with
pub trait Elems {
    type Key: Hash + Eq + Clone;
    type Val: Clone;
    fn key(log: &Rc<DropLog>, k: K) -> Self::Key;
    fn val(log: &Rc<DropLog>, tag: u64) -> Self::Val;
    fn k_of(k: &Self::Key) -> K;
    fn tag_of(v: &Self::Val) -> u64;
}
pub struct TrackedElems;
impl Elems for TrackedElems {
    type Key = CKey;
    type Val = Tracked;
    fn key(log: &Rc<DropLog>, k: K) -> CKey {
        CKey { k, t: log.make(0) }
    }
    fn val(log: &Rc<DropLog>, tag: u64) -> Tracked {
        log.make(tag)
    }
    fn k_of(k: &CKey) -> K {
        k.k
    }
    fn tag_of(v: &Tracked) -> u64 {
        v.tag
    }
}
pub struct PlainElems;
impl Elems for PlainElems {
    type Key = PKey;
    type Val = PVal;
    fn key(_log: &Rc<DropLog>, k: K) -> PKey {
        PKey(k)
    }
    fn val(_log: &Rc<DropLog>, tag: u64) -> PVal {
        PVal(tag)
    }
    fn k_of(k: &PKey) -> K {
        k.0
    }
    fn tag_of(v: &PVal) -> u64 {
        v.0
    }
}

/// keys with drop glue, values without (and the other way round): the map decides per type
/// whether it has to run destructors
pub struct KeyDropsElems;
impl Elems for KeyDropsElems {
    type Key = CKey;
    type Val = PVal;
    fn key(log: &Rc<DropLog>, k: K) -> CKey {
        CKey { k, t: log.make(0) }
    }
    fn val(_log: &Rc<DropLog>, tag: u64) -> PVal {
        PVal(tag)
    }
    fn k_of(k: &CKey) -> K {
        k.k
    }
    fn tag_of(v: &PVal) -> u64 {
        v.0
    }
}
pub struct ValDropsElems;
impl Elems for ValDropsElems {
    type Key = PKey;
    type Val = Tracked;
    fn key(_log: &Rc<DropLog>, k: K) -> PKey {
        PKey(k)
    }
    fn val(log: &Rc<DropLog>, tag: u64) -> Tracked {
        log.make(tag)
    }
    fn k_of(k: &PKey) -> K {
        k.0
    }
    fn tag_of(v: &Tracked) -> u64 {
        v.tag
    }
}

#[derive(Clone, Debug, Serialize, Deserialize, PartialEq)]
pub enum Op {
    Insert(K, u64),
    Remove(K),
    Get(K),
    GetMut(K, u64),
    Contains(K),
    Entry(K, u64),
    Reserve(usize),
    Clear,
    CloneSwap,
    Iter,
}

impl Op {
    fn name(&self) -> &'static str {
        match self {
            Op::Insert(..) => "insert",
            Op::Remove(..) => "remove",
            Op::Get(..) => "get",
            Op::GetMut(..) => "get_mut",
            Op::Contains(..) => "contains",
            Op::Entry(..) => "entry",
            Op::Reserve(..) => "reserve",
            Op::Clear => "clear",
            Op::CloneSwap => "clone",
            Op::Iter => "iter",
        }
    }
    fn fallible(&self) -> bool {
        matches!(self, Op::Insert(..) | Op::Reserve(..) | Op::Entry(..))
    }
}

#[derive(Clone, Debug, Serialize, Deserialize)]
pub struct History {
    pub init_cap: usize,
    pub ops: Vec<Op>,
}

/// 32-bit FNV-1a, as the crate's hasher computes it for one `write` of 4 bytes
fn fnv32(x: u32) -> u64 {
    let mut hash: u64 = 2166136261;
    for b in x.to_le_bytes() {
        hash ^= b as u64;
        hash &= 0xffff_ffff;
        hash = hash.wrapping_mul(16777619);
    }
    hash & 0xffff_ffff
}
fn home(x: u32, cap: usize) -> usize {
    (fnv32(x).wrapping_mul(2654435769) as usize) % cap
}
/// hash input whose FNV-1a value is the reserved 0
pub const ZERO_HASH_INPUT: u32 = u32::from_le_bytes([0xcc, 0x24, 0x31, 0xc4]);

const GROWTH_PATH: [usize; 12] = [1, 3, 4, 6, 9, 13, 19, 28, 42, 63, 94, 141];

fn gen_history(rng: &mut Rng, tier: Tier) -> History {
    let init_cap = match rng.below(10) {
        0..=3 => rng.below(20) as usize,
        4..=5 => *rng.pick(&GROWTH_PATH),
        6 => 8, // what the VM's tables use
        _ => rng.below(4) as usize,
    };
    let npool = 4 + rng.usize(14);
    let mode = rng.below(5);
    let target_cap = *rng.pick(&GROWTH_PATH[1..9]);
    // only slots that are reachable as a home slot qualify (the multiplier shares factors with
    // some capacities, e.g. only multiples of 3 are home slots at capacity 42)
    let reachable: Vec<usize> = (0..64)
        .map(|_| home(rng.next_u64() as u32, target_cap))
        .collect();
    let target_slot = match rng.below(3) {
        0 => *reachable.iter().max().unwrap(), // wrap-around at the end of the bucket array
        1 => *reachable.iter().min().unwrap(),
        _ => reachable[0],
    };
    let mut pool: Vec<K> = vec![];
    let mut next_id = 1u32;
    let mut guard = 0;
    while pool.len() < npool && guard < 100_000 {
        guard += 1;
        let k = match mode {
            0 => K(rng.next_u64() as u32, 0),
            // same home slot at one capacity of the growth path
            1 | 2 => {
                let x = rng.next_u64() as u32;
                if home(x, target_cap) != target_slot {
                    continue;
                }
                K(x, 0)
            }
            // full hash collisions: same h, different id
            3 => {
                if pool.is_empty() || rng.chance(1, 3) {
                    K(rng.next_u64() as u32, 0)
                } else {
                    next_id += 1;
                    K(rng.pick(&pool).0, next_id)
                }
            }
            // adjacent home slots (long runs) at the target capacity
            _ => {
                let x = rng.next_u64() as u32;
                let hs = home(x, target_cap);
                let d = (hs + target_cap - target_slot) % target_cap;
                if d > 3 {
                    continue;
                }
                K(x, 0)
            }
        };
        if fnv32(k.0) == 0 {
            continue;
        }
        if !pool.contains(&k) {
            pool.push(k);
        }
    }
    // the reserved hash value, in some histories
    if rng.chance(1, 12) {
        pool.push(K(ZERO_HASH_INPUT, 0));
    }
    if pool.is_empty() {
        pool.push(K(rng.next_u64() as u32 | 1, 0));
    }
    let path = rng.below(4);
    let nops = match tier {
        Tier::Quick => 6 + rng.usize(44),
        Tier::Thorough => 6 + rng.usize(80),
    };
    let mut ops = Vec::with_capacity(nops);
    let mut tag = 1u64;
    for _ in 0..nops {
        let k = *rng.pick(&pool);
        let w: [u32; 10] = match path {
            1 => [50, 14, 8, 3, 5, 0, 2, 1, 2, 4],
            2 => [0, 14, 8, 3, 5, 50, 2, 1, 2, 4],
            3 => [25, 30, 10, 3, 8, 12, 1, 1, 2, 4],
            _ => [24, 16, 10, 4, 6, 18, 3, 2, 3, 4],
        };
        let op = match rng.weighted(&w) {
            0 => {
                tag += 1;
                Op::Insert(k, tag)
            }
            1 => Op::Remove(k),
            2 => Op::Get(k),
            3 => {
                tag += 1;
                Op::GetMut(k, tag)
            }
            4 => Op::Contains(k),
            5 => {
                tag += 1;
                Op::Entry(k, tag)
            }
            6 => Op::Reserve(rng.usize(12)),
            7 => Op::Clear,
            8 => Op::CloneSwap,
            _ => Op::Iter,
        };
        ops.push(op);
    }
    History { init_cap, ops }
}

#[derive(Debug, Clone)]
pub struct Fail {
    pub op_index: i64,
    pub op: String,
    pub diverged: String,
    pub detail: String,
}

#[derive(Default)]
pub struct RunInfo {
    pub alloc_ranges: Vec<(u64, u64)>,
    pub grew: u64,
    pub removed_present: u64,
    pub failed_ops: u64,
    pub zero_hash_used: u64,
    pub states: std::collections::BTreeSet<(usize, usize)>,
    pub fail: Option<Fail>,
}

fn panic_kind(p: &PanicRecord) -> (String, String) {
    if let Some(site) = p.msg.strip_prefix("nontermination:") {
        ("nontermination".to_string(), site.to_string())
    } else {
        (
            "panic".to_string(),
            format!("{}:{} {}", short_path(&p.file), p.line, p.msg),
        )
    }
}

fn classify(got: Option<u64>, want: Option<u64>) -> &'static str {
    match (got, want) {
        (None, Some(_)) => "lost-key",
        (Some(_), None) => "phantom-key",
        _ => "stale-value",
    }
}

pub fn run_history<E: Elems, A: Allocator + Clone>(
    h: &History,
    alloc: A,
    calls: &dyn Fn() -> u64,
    fired: &dyn Fn() -> u64,
) -> RunInfo {
    let mut info = RunInfo::default();
    let log = Rc::new(DropLog::default());
    let mk = |k: K| E::key(&log, k);
    let mut model: BTreeMap<K, u64> = BTreeMap::new();
    let mut pool: Vec<K> = vec![];
    for op in &h.ops {
        match op {
            Op::Insert(k, _) | Op::Remove(k) | Op::Get(k) | Op::GetMut(k, _) | Op::Contains(k) | Op::Entry(k, _) => {
                if !pool.contains(k) {
                    pool.push(*k)
                }
            }
            _ => {}
        }
    }
    pool.sort();

    macro_rules! fail {
        ($i:expr, $op:expr, $d:expr, $detail:expr) => {{
            info.fail = Some(Fail {
                op_index: $i,
                op: $op.to_string(),
                diverged: $d.to_string(),
                detail: $detail,
            });
        }};
    }

    let c0 = calls();
    let f0 = fired();
    let built = catch(|| CaoHashMap::<E::Key, E::Val, A>::with_capacity_in(h.init_cap, alloc.clone()));
    info.alloc_ranges.push((c0, calls()));
    let mut map = match built {
        Err(p) => {
            let (k, d) = panic_kind(&p);
            fail!(-1, "with_capacity", k, d);
            return info;
        }
        Ok(Err(MapError::AllocError(_))) if fired() > f0 => {
            info.failed_ops += 1;
            return info;
        }
        Ok(Err(e)) => {
            fail!(-1, "with_capacity", "unexpected-error", format!("{e:?}"));
            return info;
        }
        Ok(Ok(t)) => t,
    };

    let mut poisoned = false;
    for (i, op) in h.ops.iter().enumerate() {
        let c0 = calls();
        let f0 = fired();
        let cap_before = map.capacity();
        let opname = op.name();
        let r = catch(|| -> Result<(), (String, String)> {
            match op {
                Op::Insert(k, tag) => {
                    if fnv32(k.0) == 0 {
                        info.zero_hash_used += 1;
                    }
                    match map.insert(mk(*k), E::val(&log, *tag)) {
                        Ok(_) => {
                            model.insert(*k, *tag);
                        }
                        Err(MapError::AllocError(_)) if fired() > f0 => {
                            info.failed_ops += 1;
                            // the key of the failed insert may be present or absent: resynchronise
                            let got = map.get(&mk(*k)).map(|t| E::tag_of(t));
                            let old = model.get(k).copied();
                            if got == Some(*tag) {
                                model.insert(*k, *tag);
                            } else if got != old {
                                return Err(("failed-insert-garbage".into(), format!("after failed insert({k:?}) get = {got:?}, before {old:?}, new {tag}")));
                            }
                        }
                        Err(e) => return Err(("unexpected-error".into(), format!("{e:?}"))),
                    }
                }
                Op::Remove(k) => {
                    let got = map.remove(&mk(*k));
                    let want = model.remove(k);
                    let got_tag = got.as_ref().map(|t| E::tag_of(t));
                    drop(got);
                    if got_tag != want {
                        return Err((classify(got_tag, want).into(), format!("remove({k:?}) got {got_tag:?} want {want:?}")));
                    }
                    if want.is_some() {
                        info.removed_present += 1;
                    }
                }
                Op::Get(k) => {
                    let got = map.get(&mk(*k)).map(|t| E::tag_of(t));
                    let want = model.get(k).copied();
                    if got != want {
                        return Err((classify(got, want).into(), format!("get({k:?}) got {got:?} want {want:?}")));
                    }
                }
                Op::GetMut(k, tag) => {
                    let want = model.get(k).copied();
                    match map.get_mut(&mk(*k)) {
                        Some(r) => {
                            if Some(E::tag_of(r)) != want {
                                return Err((classify(Some(E::tag_of(r)), want).into(), format!("get_mut({k:?}) got {} want {want:?}", E::tag_of(r))));
                            }
                            *r = E::val(&log, *tag);
                            model.insert(*k, *tag);
                        }
                        None => {
                            if want.is_some() {
                                return Err(("lost-key".into(), format!("get_mut({k:?}) none want {want:?}")));
                            }
                        }
                    }
                }
                Op::Contains(k) => {
                    let got = map.contains(&mk(*k));
                    if got != model.contains_key(k) {
                        return Err((if got { "phantom-key" } else { "lost-key" }.into(), format!("contains({k:?}) = {got}")));
                    }
                }
                Op::Entry(k, tag) => {
                    if fnv32(k.0) == 0 {
                        info.zero_hash_used += 1;
                    }
                    let want = model.get(k).copied().unwrap_or(*tag);
                    match map.entry(mk(*k)) {
                        Ok(e) => {
                            let got = E::tag_of(e.or_insert_with(|| E::val(&log, *tag)));
                            model.entry(*k).or_insert(*tag);
                            if got != want {
                                return Err(("stale-value".into(), format!("entry({k:?}) got {got} want {want}")));
                            }
                        }
                        Err(MapError::AllocError(_)) if fired() > f0 => {
                            info.failed_ops += 1;
                        }
                        Err(e) => return Err(("unexpected-error".into(), format!("{e:?}"))),
                    }
                }
                Op::Reserve(n) => match map.reserve(*n) {
                    Ok(()) => {}
                    Err(MapError::AllocError(_)) if fired() > f0 => {
                        info.failed_ops += 1;
                    }
                    Err(e) => return Err(("unexpected-error".into(), format!("{e:?}"))),
                },
                Op::Clear => {
                    map.clear();
                    model.clear();
                }
                Op::CloneSwap => {
                    let c = map.clone();
                    let old = std::mem::replace(&mut map, c);
                    drop(old);
                }
                Op::Iter => {
                    let mut got: Vec<(K, u64)> = map.iter().map(|(k, t)| (E::k_of(k), E::tag_of(t))).collect();
                    got.sort();
                    let want: Vec<(K, u64)> = model.iter().map(|(k, v)| (*k, *v)).collect();
                    if got != want {
                        return Err(("iteration".into(), format!("iter got {got:?} want {want:?}")));
                    }
                }
            }
            Ok(())
        });
        info.alloc_ranges.push((c0, calls()));
        match r {
            Err(p) => {
                let (k, d) = panic_kind(&p);
                fail!(i as i64, opname, k, d);
                poisoned = true;
                break;
            }
            Ok(Err((d, detail))) => {
                fail!(i as i64, opname, d, detail);
                break;
            }
            Ok(Ok(())) => {}
        }
        if map.capacity() > cap_before {
            info.grew += 1;
        }
        info.states.insert((map.capacity(), map.len()));
        let post = catch(|| -> Result<(), (String, String)> {
            if map.len() != model.len() {
                return Err(("len".into(), format!("len {} want {}", map.len(), model.len())));
            }
            for k in pool.iter() {
                let got = map.get(&mk(*k)).map(|t| E::tag_of(t));
                let want = model.get(k).copied();
                if got != want {
                    return Err((classify(got, want).into(), format!("after {opname}: get({k:?}) got {got:?} want {want:?}")));
                }
            }
            // iteration as a multiset (cheap: maps are small)
            let mut got: Vec<(K, u64)> = map.iter().map(|(k, t)| (E::k_of(k), E::tag_of(t))).collect();
            got.sort();
            let want: Vec<(K, u64)> = model.iter().map(|(k, v)| (*k, *v)).collect();
            if got != want {
                return Err(("iteration".into(), format!("after {opname}: iter got {got:?} want {want:?}")));
            }
            Ok(())
        });
        match post {
            Err(p) => {
                let (k, d) = panic_kind(&p);
                fail!(i as i64, opname, k, d);
                poisoned = true;
                break;
            }
            Ok(Err((d, detail))) => {
                fail!(i as i64, opname, d, detail);
                break;
            }
            Ok(Ok(())) => {}
        }
    }

    if poisoned {
        std::mem::forget(map);
        return info;
    }
    let had_fail = info.fail.is_some();
    let dropped = catch(move || drop(map));
    if let Err(p) = dropped {
        if !had_fail {
            let (k, d) = panic_kind(&p);
            fail!(h.ops.len() as i64, "drop", k, d);
        }
        return info;
    }
    if !had_fail {
        let created = log.created.get();
        for id in 0..created {
            let n = log.drops_of(id);
            if n != 1 {
                let d = if n == 0 { "leak" } else { "double-drop" };
                fail!(h.ops.len() as i64, "drop", d, format!("element #{id} dropped {n} times"));
                break;
            }
        }
    }
    info
}

fn sig_of(f: &Fail, fault: bool) -> Value {
    let crashy = f.diverged == "nontermination" || f.diverged == "panic";
    json!({
        "op": if crashy { String::new() } else { f.op.clone() },
        "diverged": f.diverged,
        "fault": fault,
        "site": if crashy { f.detail.split(' ').next().unwrap_or("").to_string() } else { String::new() },
    })
}

fn run_fault(h: &History, fail_at: Option<u64>) -> (RunInfo, Vec<String>, u64, usize) {
    run_fault_e::<TrackedElems>(h, fail_at)
}

fn run_fault_e<E: Elems>(h: &History, fail_at: Option<u64>) -> (RunInfo, Vec<String>, u64, usize) {
    let fa = FaultAlloc::new();
    fa.fail_at(fail_at);
    let a = fa.clone();
    let b = fa.clone();
    let info = run_history::<E, _>(h, fa.clone(), &move || a.calls(), &move || b.fired());
    let errs = fa.take_errors();
    (info, errs, fa.fired(), fa.outstanding())
}

fn first_fail_fault(h: &History, fail_at: Option<u64>) -> Option<(Value, String)> {
    first_fail_fault_e::<TrackedElems>(h, fail_at)
}

/// the same with key / value types without drop glue; the signature says so
fn first_fail_plain(h: &History, fail_at: Option<u64>) -> Option<(Value, String)> {
    first_fail_fault_e::<PlainElems>(h, fail_at).map(|(mut sig, what)| {
        sig["elements"] = json!("plain");
        (sig, format!("(elements without drop glue) {what}"))
    })
}

fn first_fail_mixed(h: &History, which: &str) -> Option<(Value, String)> {
    let r = if which == "key-drops" { first_fail_fault_e::<KeyDropsElems>(h, None) } else { first_fail_fault_e::<ValDropsElems>(h, None) };
    r.map(|(mut sig, what)| {
        sig["elements"] = json!(which);
        (sig, format!("(elements: {which}) {what}"))
    })
}

fn first_fail_fault_e<E: Elems>(h: &History, fail_at: Option<u64>) -> Option<(Value, String)> {
    let (info, errs, fired, outstanding) = run_fault_e::<E>(h, fail_at);
    let fault = fail_at.is_some() && fired > 0;
    if let Some(f) = &info.fail {
        return Some((sig_of(f, fault), format!("{} #{}: {} ({})", f.op, f.op_index, f.diverged, f.detail)));
    }
    if let Some(e) = errs.first() {
        let kind = e.split(' ').next().unwrap_or("").to_string();
        return Some((json!({"op":"ledger","diverged":kind,"fault":fault,"site":""}), format!("allocation ledger: {e}")));
    }
    if outstanding != 0 {
        return Some((json!({"op":"ledger","diverged":"leaked-block","fault":fault,"site":""}), format!("{outstanding} block(s) never released")));
    }
    None
}

type FirstFail = fn(&History, Option<u64>) -> Option<(Value, String)>;

fn shrink(h: &History, fail_at: Option<u64>, sig: &Value, first_fail: FirstFail) -> History {
    let mut cur = h.clone();
    if fail_at.is_some() {
        while cur.ops.len() > 1 {
            let mut cand = cur.clone();
            cand.ops.pop();
            match first_fail(&cand, fail_at) {
                Some((s, _)) if &s == sig => cur = cand,
                _ => break,
            }
        }
        return cur;
    }
    loop {
        let mut changed = false;
        let mut i = cur.ops.len();
        while i > 0 {
            i -= 1;
            let mut cand = cur.clone();
            cand.ops.remove(i);
            if let Some((s, _)) = first_fail(&cand, None) {
                if &s == sig {
                    cur = cand;
                    changed = true;
                }
            }
        }
        if !changed {
            break;
        }
    }
    cur
}

fn report(ctx: &mut CaseCtx, h: &History, alloc: &str, fail_at: Option<u64>, sig: Value, what: String) {
    ctx.violation(
        sig,
        format!("hash map ({alloc} allocator, init_cap {}): {what}", h.init_cap),
        json!({"history": h, "alloc": alloc, "fail_at": fail_at}),
    );
}

fn run_other(h: &History, alloc: &str) -> Option<(Value, String)> {
    match alloc {
        "plain" => first_fail_plain(h, None),
        "key-drops" | "val-drops" => first_fail_mixed(h, alloc),
        "sys" => {
            let info = run_history::<TrackedElems, _>(h, SysAllocator, &|| 0, &|| 0);
            info.fail.as_ref().map(|f| (sig_of(f, false), format!("{} #{}: {} ({})", f.op, f.op_index, f.diverged, f.detail)))
        }
        _ => {
            let vm = cao_lang::prelude::Vm::new(()).ok()?;
            let proxy = vm.runtime_data.verif_view().memory.clone();
            let info = run_history::<TrackedElems, _>(h, proxy, &|| 0, &|| 0);
            if let Some(f) = &info.fail {
                return Some((sig_of(f, false), format!("{} #{}: {} ({})", f.op, f.op_index, f.diverged, f.detail)));
            }
            let left = vm.runtime_data.verif_view().memory.allocated.load(std::sync::atomic::Ordering::Relaxed);
            if left != 0 {
                return Some((
                    json!({"op":"ledger","diverged":"vm-accounting-nonzero","fault":false,"site":""}),
                    format!("VM allocator still accounts {left} bytes after the map was dropped"),
                ));
            }
            None
        }
    }
}

fn exec_all(ctx: &mut CaseCtx, h: &History, hash: u64) {
    ctx.progress("run fault-free");
    ctx.evaluation();
    let (info, _errs, _fired, _outstanding) = run_fault(h, None);
    ctx.count("ops_executed", info.alloc_ranges.len() as u64);
    ctx.count("probe:map_grew", info.grew);
    ctx.count("probe:removed_present_key", info.removed_present);
    ctx.count("probe:reserved_zero_hash_key_used", info.zero_hash_used);
    for s in &info.states {
        ctx.nontrivial(prng::mix(&[0xC12, s.0 as u64, s.1 as u64]));
    }
    if info.grew > 0 || info.removed_present > 0 {
        ctx.nontrivial(prng::mix(&[hash, u64::MAX]));
    }
    if let Some((sig, what)) = first_fail_fault(h, None) {
        report(ctx, h, "fault", None, sig, what);
        return;
    }
    let mut js = vec![];
    for (oi, (a, b)) in info.alloc_ranges.iter().enumerate() {
        let fallible = if oi == 0 { true } else { h.ops[oi - 1].fallible() };
        if fallible {
            for j in *a..*b {
                js.push(j);
            }
        }
    }
    for j in js {
        ctx.progress("run fail-at");
        ctx.evaluation();
        let (_i2, _e2, fired, _o2) = run_fault(h, Some(j));
        ctx.count("fault:alloc_fail_fired", fired);
        if fired > 0 {
            ctx.nontrivial(prng::mix(&[hash, j]));
        }
        if let Some((sig, what)) = first_fail_fault(h, Some(j)) {
            report(ctx, h, "fault", Some(j), sig, what);
            break;
        }
    }
    // the same history and the same failure points with element types without drop glue (what the
    // VM itself stores: Value keys and values)
    ctx.progress("run plain");
    ctx.evaluation();
    let (pinfo, _, _, _) = run_fault_e::<PlainElems>(h, None);
    if let Some((sig, what)) = first_fail_plain(h, None) {
        report(ctx, h, "plain", None, sig, what);
    } else {
        let mut js = vec![];
        for (oi, (a, b)) in pinfo.alloc_ranges.iter().enumerate() {
            let fallible = if oi == 0 { true } else { h.ops[oi - 1].fallible() };
            if fallible {
                for j in *a..*b {
                    js.push(j);
                }
            }
        }
        for j in js {
            ctx.progress("run plain fail-at");
            ctx.evaluation();
            if let Some((sig, what)) = first_fail_plain(h, Some(j)) {
                report(ctx, h, "plain", Some(j), sig, what);
                break;
            }
            ctx.count("fault:alloc_fail_fired_plain_elements", 1);
        }
    }
    for alloc in ["sys", "vm", "key-drops", "val-drops"] {
        ctx.progress(&format!("run {alloc}"));
        ctx.evaluation();
        if let Some((sig, what)) = run_other(h, alloc) {
            report(ctx, h, alloc, None, sig, what);
        }
    }
}

impl Check for C12 {
    fn id(&self) -> &'static str {
        "C12"
    }
    fn level(&self) -> &'static str {
        "fault_enumeration"
    }
    fn rule(&self) -> String {
        "one case = one seeded operation history (insert/remove/get/get_mut/contains/entry/reserve/clear/clone/iter, 6-85 ops) \
         over 4-18 keys whose hash the generator controls (same home slot at a capacity of the growth path 1,3,4,6,9,13,.., \
         wrap-around, full 32-bit collisions between unequal keys, the reserved hash 0) on a map with a seeded initial capacity; \
         executed fault-free on a counting stub allocator, then once for EVERY allocation index inside a fallible operation with \
         that allocation failing, then on SysAllocator and on the AllocProxy of a live VM; the whole again (fault-free and every fail-at-j) with key / value \
         types without drop glue, and fault-free with keys only / values only having drop glue. distinct_nontrivial counts distinct \
         (capacity,count) states reached + distinct (history, fail index) pairs whose failure fired + histories with growth or \
         removal of a present key."
            .to_string()
    }
    fn cases(&self, tier: Tier) -> u64 {
        match tier {
            Tier::Quick => 40_000,
            Tier::Thorough => 1_500_000,
        }
    }
    fn run_case(&self, ctx: &mut CaseCtx) {
        let mut rng = ctx.rng("workload");
        let h = gen_history(&mut rng, ctx.tier);
        let hv = serde_json::to_value(&h).unwrap();
        let hash = crate::kernel::stable_hash_json(&hv);
        if ctx.case < 2 {
            ctx.sample = Some(json!({"history": hv, "schedules": "fault-free, fail-at-j for all j in fallible ops, sys, vm"}));
        }
        exec_all(ctx, &h, hash);
    }
    fn replay(&self, replay: &Value, ctx: &mut CaseCtx) {
        let Some(h) = replay.get("history").and_then(|h| serde_json::from_value::<History>(h.clone()).ok()) else {
            return;
        };
        let alloc = replay.get("alloc").and_then(|a| a.as_str()).unwrap_or("fault");
        let fail_at = replay.get("fail_at").and_then(|a| a.as_u64());
        ctx.evaluation();
        let r = match alloc {
            "fault" => first_fail_fault(&h, fail_at),
            "plain" => first_fail_plain(&h, fail_at),
            other => run_other(&h, other),
        };
        if let Some((sig, what)) = r {
            ctx.violation(sig, what, replay.clone());
        }
    }
    fn minimise(&self, replay: &Value, sig: &Value) -> Value {
        let Some(h) = replay.get("history").and_then(|h| serde_json::from_value::<History>(h.clone()).ok()) else {
            return replay.clone();
        };
        let alloc = replay.get("alloc").and_then(|a| a.as_str()).unwrap_or("fault").to_string();
        let fail_at = replay.get("fail_at").and_then(|a| a.as_u64());
        if alloc == "plain" {
            let hm = shrink(&h, fail_at, sig, first_fail_plain);
            return json!({"history": hm, "alloc": alloc, "fail_at": fail_at});
        }
        let on_stub = first_fail_fault(&h, fail_at).map(|(s, _)| &s == sig).unwrap_or(false);
        let hm = if on_stub { shrink(&h, fail_at, sig, first_fail_fault) } else { h.clone() };
        let alloc = if on_stub { "fault".to_string() } else { alloc };
        json!({"history": hm, "alloc": alloc, "fail_at": fail_at})
    }
    fn assumptions(&self) -> Vec<String> {
        vec![
            "allocation failure is not injected during clone() / Default, whose signatures cannot report it".into(),
            "after an injected failure the key of the failed insert may be present or absent (model resynchronises); nothing else is relaxed".into(),
            "step bound of hook H7: a probe sequence longer than the capacity is reported as non-termination".into(),
        ]
    }
    fn components(&self) -> Value {
        json!({"real": ["CaoHashMap (all operations, CaoHasher)", "SysAllocator", "CaoLangAllocator/AllocProxy of a live VM"],
               "stub": ["FaultAlloc (counting / failing allocator)", "CKey / Tracked (hash-controlled, drop-counting element types)"]})
    }
    fn required_probes(&self, _tier: Tier) -> Vec<String> {
        vec![
            "probe:map_grew".into(),
            "probe:removed_present_key".into(),
            "fault:alloc_fail_fired".into(),
            "probe:reserved_zero_hash_key_used".into(),
        ]
    }
}
