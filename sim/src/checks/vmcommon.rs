//! Shared pieces of the VM-level checks: compiling under isolation, schedule (de)serialisation,
//! module shrinking.
use crate::ctl::vmctl::{CtlConfig, GcPlan};
use crate::ctl::vmrun::{HostPlan, Knobs};
use crate::kernel::worker::{catch, short_path, PanicRecord};
use cao_lang::compiler::{CardIndex, Module};
use cao_lang::prelude::*;
use serde_json::{json, Value as Json};

pub enum Compiled {
    Ok(CaoCompiledProgram),
    Err(CompilationError),
    Panic(PanicRecord),
}

pub fn compile_module(m: &Module) -> Compiled {
    match catch(|| compile(m.clone(), None)) {
        Ok(Ok(p)) => Compiled::Ok(p),
        Ok(Err(e)) => Compiled::Err(e),
        Err(p) => Compiled::Panic(p),
    }
}

pub fn panic_site(p: &PanicRecord) -> String {
    format!("{}:{}", short_path(&p.file), p.line)
}

/// An explicit schedule: everything the simulator decides for one run
#[derive(Clone, Debug)]
pub struct Schedule {
    pub knobs: Knobs,
    pub gc: GcPlan,
    pub fail_alloc: Option<u64>,
    pub quarantine: bool,
    pub host: HostPlan,
}

impl Schedule {
    pub fn new(gc: GcPlan, quarantine: bool) -> Self {
        Schedule {
            knobs: Knobs::default(),
            gc,
            fail_alloc: None,
            quarantine,
            host: HostPlan::default(),
        }
    }
    pub fn cfg(&self) -> CtlConfig {
        CtlConfig {
            gc: self.gc.clone(),
            fail_alloc: self.fail_alloc,
            quarantine: self.quarantine,
            ..Default::default()
        }
    }
    pub fn to_json(&self) -> Json {
        json!({
            "knobs": self.knobs,
            "gc": self.gc.to_json(),
            "fail_alloc": self.fail_alloc,
            "quarantine": self.quarantine,
            "host": self.host,
        })
    }
    pub fn from_json(v: &Json) -> Option<Schedule> {
        Some(Schedule {
            knobs: serde_json::from_value(v.get("knobs")?.clone()).ok()?,
            gc: GcPlan::from_json(v.get("gc")?)?,
            fail_alloc: v.get("fail_alloc").and_then(|x| x.as_u64()),
            quarantine: v.get("quarantine").and_then(|x| x.as_bool()).unwrap_or(false),
            host: serde_json::from_value(v.get("host").cloned().unwrap_or(json!({"at":{}}))).unwrap_or_default(),
        })
    }
    pub fn hash(&self) -> u64 {
        crate::kernel::stable_hash_json(&self.to_json())
    }
}

pub fn module_json(m: &Module) -> Json {
    serde_json::to_value(m).unwrap_or(Json::Null)
}

pub fn module_from_json(v: &Json) -> Option<Module> {
    serde_json::from_value(v.clone()).ok()
}

pub fn count_cards(m: &Module) -> usize {
    let mut n = 0;
    let mut m2 = m.clone();
    m2.walk_cards(|_, _| n += 1);
    n
}

/// Greedy shrinking of a module: repeatedly try to remove (or nil-out) single cards, keeping a
/// candidate iff `still_fails` holds. At most `max_tries` candidate evaluations.
pub fn shrink_module(m: &Module, max_tries: usize, mut still_fails: impl FnMut(&Module) -> bool) -> Module {
    let mut cur = m.clone();
    let mut tries = 0usize;
    loop {
        let mut progressed = false;
        // whole functions (never main)
        let mut fi = cur.functions.len();
        while fi > 1 {
            fi -= 1;
            if tries >= max_tries {
                return cur;
            }
            if cur.functions[fi].0 == "main" {
                continue;
            }
            let mut cand = cur.clone();
            cand.functions.remove(fi);
            tries += 1;
            if still_fails(&cand) {
                cur = cand;
                progressed = true;
            }
        }
        // single cards, last to first
        let mut indices: Vec<CardIndex> = vec![];
        {
            let mut tmp = cur.clone();
            tmp.walk_cards(|idx, _| indices.push(idx.clone()));
        }
        indices.sort();
        for idx in indices.into_iter().rev() {
            if tries >= max_tries {
                return cur;
            }
            let mut cand = cur.clone();
            if !shrink_step(&mut cand, &idx) {
                continue;
            }
            tries += 1;
            if still_fails(&cand) {
                cur = cand;
                progressed = true;
            }
        }
        if !progressed {
            return cur;
        }
    }
}

/// One well-formedness preserving shrink step at `idx`: remove the card if it sits in a card list
/// (function body, composite, closure body, array), nil it out if it fills a value slot, replace
/// it by an empty block if it is the body / branch of a loop or conditional. Arities are kept.
fn shrink_step(m: &mut Module, idx: &CardIndex) -> bool {
    use cao_lang::compiler::{Card, CardBody};
    let depth = idx.card_index.indices.len();
    if depth == 0 {
        return false;
    }
    if depth == 1 {
        return m.remove_card(idx).is_ok();
    }
    let mut pidx = idx.clone();
    pidx.pop_subindex();
    let child_no = *idx.card_index.indices.last().unwrap() as usize;
    let Ok(parent) = m.get_card(&pidx) else { return false };
    enum Act {
        Remove,
        Nil,
        EmptyBlock,
        Skip,
    }
    let already_nil = |c: &Card| matches!(c.body, CardBody::ScalarNil);
    let act = match &parent.body {
        CardBody::CompositeCard(_) | CardBody::Closure(_) | CardBody::Array(_) => Act::Remove,
        CardBody::Repeat(_) | CardBody::ForEach(_) | CardBody::While(_) | CardBody::IfTrue(_) | CardBody::IfFalse(_) => {
            if child_no == 1 {
                Act::EmptyBlock
            } else {
                Act::Nil
            }
        }
        CardBody::IfElse(_) => {
            if child_no >= 1 {
                Act::EmptyBlock
            } else {
                Act::Nil
            }
        }
        CardBody::Return(_) => Act::Nil,
        CardBody::Comment(_) => Act::Skip,
        _ => Act::Nil,
    };
    match act {
        Act::Remove => m.remove_card(idx).is_ok(),
        Act::Nil => {
            match m.get_card(idx) {
                Ok(c) if already_nil(c) => return false,
                Ok(_) => {}
                Err(_) => return false,
            }
            m.replace_card(idx, CardBody::ScalarNil.into()).is_ok()
        }
        Act::EmptyBlock => {
            match m.get_card(idx) {
                Ok(c) => {
                    if let CardBody::CompositeCard(cc) = &c.body {
                        if cc.cards.is_empty() {
                            return false;
                        }
                    }
                }
                Err(_) => return false,
            }
            m.replace_card(idx, Card::composite_card("empty", vec![])).is_ok()
        }
        Act::Skip => false,
    }
}
