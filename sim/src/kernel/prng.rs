//! Seeded PRNG: SplitMix64 for seed derivation, xoshiro256** for streams.
//! No external crates, no OS entropy, no clocks.

#[inline]
pub fn splitmix(state: &mut u64) -> u64 {
    *state = state.wrapping_add(0x9E3779B97F4A7C15);
    let mut z = *state;
    z = (z ^ (z >> 30)).wrapping_mul(0xBF58476D1CE4E5B9);
    z = (z ^ (z >> 27)).wrapping_mul(0x94D049BB133111EB);
    z ^ (z >> 31)
}

/// FNV-1a 64 over bytes, used for stable hashing of strings / json (never std's RandomState)
pub fn fnv64(bytes: &[u8]) -> u64 {
    let mut h: u64 = 0xcbf29ce484222325;
    for b in bytes {
        h ^= *b as u64;
        h = h.wrapping_mul(0x100000001b3);
    }
    h
}

pub fn mix(parts: &[u64]) -> u64 {
    let mut s = 0x243F6A8885A308D3u64;
    for p in parts {
        s ^= *p;
        splitmix(&mut s);
        s = s.rotate_left(23).wrapping_mul(0x9E3779B97F4A7C15);
    }
    let mut t = s;
    splitmix(&mut t)
}

#[derive(Clone, Debug)]
pub struct Rng {
    s: [u64; 4],
}

impl Rng {
    pub fn new(seed: u64) -> Self {
        let mut st = seed;
        let s = [
            splitmix(&mut st),
            splitmix(&mut st),
            splitmix(&mut st),
            splitmix(&mut st),
        ];
        Rng { s }
    }

    /// Independent stream for (seed, check id, case, concern)
    pub fn stream(seed: u64, check: &str, case: u64, concern: &str) -> Self {
        Rng::new(mix(&[
            seed,
            fnv64(check.as_bytes()),
            case,
            fnv64(concern.as_bytes()),
        ]))
    }

    #[inline]
    pub fn next_u64(&mut self) -> u64 {
        let result = self.s[1].wrapping_mul(5).rotate_left(7).wrapping_mul(9);
        let t = self.s[1] << 17;
        self.s[2] ^= self.s[0];
        self.s[3] ^= self.s[1];
        self.s[1] ^= self.s[2];
        self.s[0] ^= self.s[3];
        self.s[2] ^= t;
        self.s[3] = self.s[3].rotate_left(45);
        result
    }

    /// uniform in 0..n (n > 0)
    #[inline]
    pub fn below(&mut self, n: u64) -> u64 {
        debug_assert!(n > 0);
        // multiply-shift; bias is irrelevant for our purposes
        ((self.next_u64() as u128 * n as u128) >> 64) as u64
    }

    #[inline]
    pub fn range(&mut self, lo: i64, hi_incl: i64) -> i64 {
        debug_assert!(lo <= hi_incl);
        lo + self.below((hi_incl - lo + 1) as u64) as i64
    }

    #[inline]
    pub fn usize(&mut self, n: usize) -> usize {
        self.below(n as u64) as usize
    }

    #[inline]
    pub fn chance(&mut self, num: u64, den: u64) -> bool {
        self.below(den) < num
    }

    #[inline]
    pub fn f64(&mut self) -> f64 {
        (self.next_u64() >> 11) as f64 / (1u64 << 53) as f64
    }

    pub fn pick<'a, T>(&mut self, xs: &'a [T]) -> &'a T {
        &xs[self.usize(xs.len())]
    }

    /// weighted index
    pub fn weighted(&mut self, weights: &[u32]) -> usize {
        let total: u64 = weights.iter().map(|w| *w as u64).sum();
        debug_assert!(total > 0);
        let mut x = self.below(total);
        for (i, w) in weights.iter().enumerate() {
            if x < *w as u64 {
                return i;
            }
            x -= *w as u64;
        }
        weights.len() - 1
    }

    pub fn shuffle<T>(&mut self, xs: &mut [T]) {
        for i in (1..xs.len()).rev() {
            let j = self.usize(i + 1);
            xs.swap(i, j);
        }
    }
}
