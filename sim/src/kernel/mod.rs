//! Simulation kernel: seeds, cases, worker processes, driver, evidence, known findings.
pub mod driver;
pub mod prng;
pub mod worker;

use serde_json::{json, Value};
use std::collections::{BTreeMap, BTreeSet};

pub use prng::Rng;

#[derive(Clone, Copy, Debug, PartialEq, Eq)]
pub enum Tier {
    Quick,
    Thorough,
}

impl Tier {
    pub fn parse(s: &str) -> Option<Tier> {
        match s {
            "quick" => Some(Tier::Quick),
            "thorough" => Some(Tier::Thorough),
            _ => None,
        }
    }
    pub fn name(self) -> &'static str {
        match self {
            Tier::Quick => "quick",
            Tier::Thorough => "thorough",
        }
    }
}

#[derive(Clone, Debug)]
pub struct Violation {
    /// canonical, pointer-free signature (class of the violation)
    pub sig: Value,
    /// human readable one-liner
    pub what: String,
    /// everything needed to re-execute: workload + schedule
    pub replay: Value,
}

impl Violation {
    pub fn to_json(&self) -> Value {
        json!({"sig": self.sig, "what": self.what, "replay": self.replay})
    }
    pub fn from_json(v: &Value) -> Option<Self> {
        Some(Violation {
            sig: v.get("sig")?.clone(),
            what: v.get("what")?.as_str()?.to_string(),
            replay: v.get("replay")?.clone(),
        })
    }
}

/// Per-case context handed to a check
pub struct CaseCtx {
    pub check_id: &'static str,
    pub seed: u64,
    pub case: u64,
    pub tier: Tier,
    pub stats: BTreeMap<String, u64>,
    /// hashes of distinct non-trivial (workload, schedule) pairs
    pub distinct: BTreeSet<u64>,
    pub violations: Vec<Violation>,
    pub sample: Option<Value>,
    pub progress_enabled: bool,
}

impl CaseCtx {
    pub fn new(check_id: &'static str, seed: u64, case: u64, tier: Tier) -> Self {
        CaseCtx {
            check_id,
            seed,
            case,
            tier,
            stats: BTreeMap::new(),
            distinct: BTreeSet::new(),
            violations: Vec::new(),
            sample: None,
            progress_enabled: true,
        }
    }

    pub fn rng(&self, concern: &str) -> Rng {
        Rng::stream(self.seed, self.check_id, self.case, concern)
    }

    #[inline]
    pub fn count(&mut self, key: &str, n: u64) {
        if n == 0 {
            // still create the key so that probes at zero are visible
            self.stats.entry(key.to_string()).or_insert(0);
            return;
        }
        *self.stats.entry(key.to_string()).or_insert(0) += n;
    }

    #[inline]
    pub fn max(&mut self, key: &str, n: u64) {
        let e = self.stats.entry(format!("max:{key}")).or_insert(0);
        if n > *e {
            *e = n;
        }
    }

    /// one simulated run happened
    #[inline]
    pub fn evaluation(&mut self) {
        self.count("evaluations", 1);
    }

    /// a run in which at least one scheduled decision / fault actually fired
    #[inline]
    pub fn nontrivial(&mut self, hash: u64) {
        self.distinct.insert(hash);
    }

    /// Written (and flushed) before a risky step so the driver can name it if the worker dies
    pub fn progress(&self, tag: &str) {
        if self.progress_enabled {
            use std::io::Write;
            let out = std::io::stdout();
            let mut out = out.lock();
            let _ = writeln!(out, "P {tag}");
            let _ = out.flush();
        }
    }

    /// Announce a violation before a risky follow-up step (minimisation): printed and flushed
    /// at once, used by the driver only if the worker dies before the case ends.
    pub fn pre_violation(&self, sig: &Value, what: &str, replay: &Value) {
        if self.progress_enabled {
            use std::io::Write;
            let out = std::io::stdout();
            let mut out = out.lock();
            let _ = writeln!(out, "V {} {}", self.case, json!({"sig": sig, "what": what, "replay": replay}));
            let _ = out.flush();
        }
    }

    pub fn violation(&mut self, sig: Value, what: impl Into<String>, replay: Value) {
        self.violations.push(Violation {
            sig,
            what: what.into(),
            replay,
        });
    }
}

pub trait Check: Sync {
    fn id(&self) -> &'static str;
    /// EVIDENCE level: "exploration" | "fault_enumeration"
    fn level(&self) -> &'static str;
    fn rule(&self) -> String;
    fn cases(&self, tier: Tier) -> u64;
    fn run_case(&self, ctx: &mut CaseCtx);
    /// Re-execute a recorded (workload, schedule); push the violations it shows
    fn replay(&self, replay: &Value, ctx: &mut CaseCtx);
    /// Shrink a recorded (workload, schedule) while it still shows a violation with signature
    /// `sig`. Called by the driver in a separate process, once per distinct signature.
    fn minimise(&self, replay: &Value, _sig: &Value) -> Value {
        replay.clone()
    }
    fn assumptions(&self) -> Vec<String>;
    /// which components ran real code and which were stubs
    fn components(&self) -> Value;
    /// counters that must be non-zero after a full run of the tier (reach probes)
    fn required_probes(&self, _tier: Tier) -> Vec<String> {
        vec![]
    }
    /// run every second batch of the thorough tier with the release-like ("fast") build, if present
    fn fast_flavour_share(&self) -> bool {
        false
    }
    /// per-case wall-clock watchdog in seconds (backstop only)
    /// thorough tier: run one batch in eight in an AddressSanitizer build (real frees, so reads of
    /// freed memory and out-of-bounds accesses that change nothing observable still stop the run)
    fn asan_flavour_share(&self) -> bool {
        false
    }
    fn watchdog_s(&self, _tier: Tier) -> u64 {
        30
    }
}

/// Minimisation is expensive: a worker process minimises each violation signature only a couple of
/// times; later cases with the same signature report the un-minimised workload.
pub fn should_minimise(sig: &Value) -> bool {
    use std::sync::Mutex;
    static SEEN: Mutex<BTreeMap<String, u32>> = Mutex::new(BTreeMap::new());
    if std::env::var_os("CAOSIM_NO_SHRINK").is_some() {
        return false;
    }
    let mut s = SEEN.lock().unwrap();
    let n = s.entry(sig.to_string()).or_insert(0);
    *n += 1;
    *n <= 2
}

pub fn stable_hash_json(v: &Value) -> u64 {
    prng::fnv64(v.to_string().as_bytes())
}
