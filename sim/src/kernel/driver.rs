//! Driver: fans cases out to worker processes, collects results, verifies replays,
//! applies the known-findings file, writes evidence, prints VIOLATION / KNOWN-FINDING lines.
use super::{Check, Tier, Violation};
use serde_json::{json, Value};
use std::collections::{BTreeMap, BTreeSet};
use std::io::{BufRead, BufReader};
use std::path::PathBuf;
use std::process::{Command, Stdio};
use std::sync::atomic::{AtomicBool, AtomicU64, Ordering};
use std::sync::{Arc, Mutex};
use std::time::{Duration, Instant};

pub fn verif_root() -> PathBuf {
    std::env::var("VERIF_ROOT")
        .map(PathBuf::from)
        .unwrap_or_else(|_| PathBuf::from("/verif"))
}

#[derive(Default)]
struct Agg {
    stats: BTreeMap<String, u64>,
    distinct: BTreeSet<u64>,
    violations: Vec<(u64, Violation)>,
    samples: BTreeMap<u64, Value>,
    harness_errors: Vec<String>,
    cases_done: u64,
}

impl Agg {
    fn merge_case(&mut self, case: u64, v: &Value, flavour: &str) {
        self.cases_done += 1;
        if let Some(st) = v.get("st").and_then(|s| s.as_object()) {
            for (k, n) in st {
                let n = n.as_u64().unwrap_or(0);
                if k.starts_with("max:") {
                    let e = self.stats.entry(k.clone()).or_insert(0);
                    if n > *e {
                        *e = n;
                    }
                } else {
                    *self.stats.entry(k.clone()).or_insert(0) += n;
                }
            }
        }
        if let Some(d) = v.get("d").and_then(|s| s.as_array()) {
            for h in d {
                if let Some(h) = h.as_str().and_then(|s| u64::from_str_radix(s, 16).ok()) {
                    self.distinct.insert(h);
                }
            }
        }
        if let Some(vs) = v.get("v").and_then(|s| s.as_array()) {
            for x in vs {
                if let Some(mut vi) = Violation::from_json(x) {
                    if flavour != "strict" {
                        // only the build flavour that showed it is asked to show it again
                        if let Some(o) = vi.replay.as_object_mut() {
                            o.insert("flavour".into(), json!(flavour));
                        }
                        vi.what = format!("[{flavour} build] {}", vi.what);
                    }
                    self.violations.push((case, vi));
                }
            }
        }
        if let Some(s) = v.get("sample") {
            if !s.is_null() && (self.samples.len() < 4 || self.samples.keys().any(|k| *k > case)) {
                self.samples.insert(case, s.clone());
                while self.samples.len() > 4 {
                    let last = *self.samples.keys().next_back().unwrap();
                    self.samples.remove(&last);
                }
            }
        }
    }
}

struct Live {
    pid: u32,
    last_progress_ms: u64,
    /// CPU time (clock ticks) the worker had consumed when it last reported progress
    cpu_at_progress: u64,
    /// CPU seconds without progress after which this worker counts as hung
    limit_s: u64,
    killed_by_watchdog: bool,
}

/// user + system CPU time of a process in clock ticks (100 per second on Linux), 0 if unknown
fn cpu_ticks(pid: u32) -> u64 {
    let Ok(s) = std::fs::read_to_string(format!("/proc/{pid}/stat")) else { return 0 };
    // fields after the command name (which is in parentheses and may contain spaces)
    let Some(rest) = s.rfind(')').map(|i| &s[i + 1..]) else { return 0 };
    let f: Vec<&str> = rest.split_whitespace().collect();
    // rest[0] is the state = field 3; utime = field 14, stime = field 15
    let ut = f.get(11).and_then(|x| x.parse::<u64>().ok()).unwrap_or(0);
    let st = f.get(12).and_then(|x| x.parse::<u64>().ok()).unwrap_or(0);
    ut + st
}

pub struct WorkerOutcome {
    pub lines_ok: bool,
    /// Some(case) if the worker died while this case was running
    pub died_in: Option<u64>,
    pub how: String,
    pub last_progress: String,
    pub harness_error: Option<String>,
    /// violations announced (V lines) by the case that was running when the worker died
    pub pre_violations: Vec<Violation>,
    /// result of a minimise worker (M line)
    pub minimised: Option<Value>,
}

/// Run one worker subprocess over [from,to), feeding finished cases to `on_case`.
fn run_one_worker(
    exe: Option<&std::path::Path>,
    args: &[String],
    watchdog_s: u64,
    registry: &Arc<Mutex<BTreeMap<u64, Live>>>,
    slot: u64,
    t0: Instant,
    mut on_case: impl FnMut(u64, &Value),
) -> WorkerOutcome {
    let exe = match exe {
        Some(e) => e.to_path_buf(),
        None => std::env::current_exe().expect("current_exe"),
    };
    let mut child = Command::new(exe)
        .args(args)
        .stdin(Stdio::null())
        .stdout(Stdio::piped())
        .stderr(Stdio::null())
        .spawn()
        .expect("spawn worker");
    let pid = child.id();
    registry.lock().unwrap().insert(
        slot,
        Live {
            pid,
            last_progress_ms: t0.elapsed().as_millis() as u64,
            cpu_at_progress: 0,
            limit_s: watchdog_s,
            killed_by_watchdog: false,
        },
    );
    let stdout = child.stdout.take().unwrap();
    let reader = BufReader::new(stdout);
    let mut current: Option<u64> = None;
    let mut last_progress = String::new();
    let mut harness_error = None;
    let mut pre_violations: Vec<Violation> = vec![];
    let mut minimised: Option<Value> = None;
    for line in reader.lines() {
        let Ok(line) = line else { break };
        if let Some(l) = registry.lock().unwrap().get_mut(&slot) {
            l.last_progress_ms = t0.elapsed().as_millis() as u64;
            l.cpu_at_progress = cpu_ticks(l.pid);
        }
        let mut it = line.splitn(3, ' ');
        match it.next() {
            Some("B") => {
                current = it.next().and_then(|c| c.parse().ok());
                last_progress.clear();
                pre_violations.clear();
            }
            Some("V") => {
                let _case = it.next();
                if let Some(v) = it.next().and_then(|js| serde_json::from_str::<Value>(js).ok()) {
                    if let Some(v) = Violation::from_json(&v) {
                        pre_violations.push(v);
                    }
                }
            }
            Some("P") => {
                last_progress = line[2..].to_string();
            }
            Some("M") => {
                minimised = serde_json::from_str::<Value>(&line[2..]).ok();
            }
            Some("E") => {
                let case: u64 = it.next().and_then(|c| c.parse().ok()).unwrap_or(0);
                let js = it.next().unwrap_or("null");
                match serde_json::from_str::<Value>(js) {
                    Ok(v) => on_case(case, &v),
                    Err(e) => harness_error = Some(format!("bad worker json: {e}")),
                }
                current = None;
                pre_violations.clear();
            }
            Some("X") => {
                harness_error = Some(line.clone());
            }
            _ => {}
        }
    }
    let status = child.wait().expect("wait");
    let killed = registry
        .lock()
        .unwrap()
        .remove(&slot)
        .map(|l| l.killed_by_watchdog)
        .unwrap_or(false);
    use std::os::unix::process::ExitStatusExt;
    let how = if killed {
        "hang".to_string()
    } else if let Some(sig) = status.signal() {
        format!("signal {sig}")
    } else {
        format!("exit {}", status.code().unwrap_or(-1))
    };
    let died_in = if status.success() { None } else { current };
    WorkerOutcome {
        lines_ok: status.success(),
        died_in,
        how,
        last_progress,
        harness_error,
        pre_violations,
        minimised,
    }
}

fn load_known(id: &str) -> Vec<(Value, String)> {
    let p = verif_root().join("known_findings.jsonl");
    let mut out = vec![];
    if let Ok(s) = std::fs::read_to_string(p) {
        for line in s.lines() {
            let line = line.trim();
            if line.is_empty() || line.starts_with('#') {
                continue;
            }
            if let Ok(v) = serde_json::from_str::<Value>(line) {
                if v.get("property").and_then(|p| p.as_str()) == Some(id)
                    && v.get("status").and_then(|p| p.as_str()) == Some("known")
                {
                    out.push((
                        v.get("signature").cloned().unwrap_or(Value::Null),
                        v.get("what")
                            .and_then(|w| w.as_str())
                            .unwrap_or("")
                            .to_string(),
                    ));
                }
            }
        }
    }
    out
}

/// Re-run a replay file in a fresh process; returns the signatures it reports
/// (a crash is reported as a crash signature).
pub fn replay_in_subprocess(id: &str, path: &std::path::Path, watchdog_s: u64) -> Vec<Value> {
    let registry = Arc::new(Mutex::new(BTreeMap::new()));
    let stop = Arc::new(AtomicBool::new(false));
    let t0 = Instant::now();
    let wd = spawn_watchdog(registry.clone(), stop.clone(), watchdog_s, t0);
    let mut sigs = vec![];
    let args = vec![
        "replay-worker".to_string(),
        id.to_string(),
        path.to_string_lossy().to_string(),
    ];
    let exe = flavour_exe_of(path);
    let asan = exe.is_some() && std::env::var("CAOSIM_ASAN_EXE").ok().map(PathBuf::from) == exe;
    let watchdog_s = if asan { watchdog_s * 12 } else { watchdog_s };
    let out = run_one_worker(exe.as_deref(), &args, watchdog_s, &registry, 0, t0, |_c, v| {
        if let Some(vs) = v.get("v").and_then(|s| s.as_array()) {
            for x in vs {
                if let Some(s) = x.get("sig") {
                    sigs.push(s.clone());
                }
            }
        }
    });
    stop.store(true, Ordering::Relaxed);
    let _ = wd.join();
    if out.died_in.is_some() {
        sigs.push(crash_sig(&out.how, &out.last_progress));
    }
    sigs
}

/// the executable of the build flavour a replay file asks for (None: this executable)
pub fn flavour_exe_of(path: &std::path::Path) -> Option<PathBuf> {
    let rp: Value = serde_json::from_str(&std::fs::read_to_string(path).ok()?).ok()?;
    let var = match rp.get("flavour").and_then(|f| f.as_str()) {
        Some("asan") => "CAOSIM_ASAN_EXE",
        Some("fast") => "CAOSIM_FAST_EXE",
        _ => return None,
    };
    std::env::var(var).ok().map(PathBuf::from).filter(|p| p.exists())
}

/// number of violation reports after which no further batches are started
const FLOOD: usize = 400;
/// ... or this many worker deaths (each hang costs the watchdog's CPU allowance)
const DEATH_FLOOD: u64 = 48;

pub fn crash_sig(how: &str, progress: &str) -> Value {
    // the progress tag's first token names the phase (e.g. "run", "compile", "op:insert")
    let phase = progress.split_whitespace().next().unwrap_or("");
    json!({"kind": "crash", "how": how, "phase": phase})
}

fn spawn_watchdog(
    registry: Arc<Mutex<BTreeMap<u64, Live>>>,
    stop: Arc<AtomicBool>,
    watchdog_s: u64,
    t0: Instant,
) -> std::thread::JoinHandle<()> {
    std::thread::spawn(move || {
        while !stop.load(Ordering::Relaxed) {
            std::thread::sleep(Duration::from_millis(200));
            let now = t0.elapsed().as_millis() as u64;
            let mut reg = registry.lock().unwrap();
            for (_slot, l) in reg.iter_mut() {
                // A hang is judged by the CPU time the worker burnt since its last progress line,
                // not by wall-clock time, so a busy machine cannot turn a slow case into a "hang";
                // wall-clock time (40x) is only the backstop for a worker that sleeps forever.
                let burnt = cpu_ticks(l.pid).saturating_sub(l.cpu_at_progress);
                let limit = l.limit_s.max(1);
                let stalled_wall = now.saturating_sub(l.last_progress_ms) > limit * 1000 * 40;
                if !l.killed_by_watchdog && (burnt > limit * 100 || stalled_wall) {
                    l.killed_by_watchdog = true;
                    unsafe {
                        libc::kill(l.pid as i32, libc::SIGKILL);
                    }
                }
            }
        }
    })
}

pub fn run_check(check: &'static dyn Check, tier: Tier, seed: u64, jobs: usize) -> i32 {
    let t0 = Instant::now();
    let id = check.id();
    let n = std::env::var("CAOSIM_CASES")
        .ok()
        .and_then(|s| s.parse().ok())
        .unwrap_or_else(|| check.cases(tier));
    let watchdog_s = std::env::var("VERIF_WATCHDOG_S")
        .ok()
        .and_then(|s| s.parse().ok())
        .unwrap_or(check.watchdog_s(tier));
    let batch = ((n + (jobs as u64 * 6) - 1) / (jobs as u64 * 6)).max(1);
    let nbatches = (n + batch - 1) / batch;
    // debugging aid: CAOSIM_FIRST_CASE=<case> starts at the batch that holds that case
    let first_batch = std::env::var("CAOSIM_FIRST_CASE").ok().and_then(|s| s.parse::<u64>().ok()).map(|c| c / batch).unwrap_or(0);
    let next = Arc::new(AtomicU64::new(first_batch));
    let agg = Arc::new(Mutex::new(Agg::default()));
    let registry = Arc::new(Mutex::new(BTreeMap::new()));
    let stop = Arc::new(AtomicBool::new(false));
    let wd = spawn_watchdog(registry.clone(), stop.clone(), watchdog_s, t0);

    println!(
        "caosim: property={id} tier={} VERIF_SEED={seed} cases={n} jobs={jobs}",
        tier.name()
    );

    let fast_exe: Option<PathBuf> = if check.fast_flavour_share() && tier == Tier::Thorough {
        std::env::var("CAOSIM_FAST_EXE").ok().map(PathBuf::from).filter(|p| p.exists())
    } else {
        None
    };
    let asan_exe: Option<PathBuf> = if check.asan_flavour_share() && tier == Tier::Thorough {
        std::env::var("CAOSIM_ASAN_EXE").ok().map(PathBuf::from).filter(|p| p.exists())
    } else {
        None
    };
    let mut handles = vec![];
    for j in 0..jobs {
        let fast_exe = fast_exe.clone();
        let asan_exe = asan_exe.clone();
        let next = next.clone();
        let agg = agg.clone();
        let registry = registry.clone();
        handles.push(std::thread::spawn(move || loop {
            let b = next.fetch_add(1, Ordering::Relaxed);
            if b >= nbatches {
                break;
            }
            // a tree that fails everywhere has been decided long before the last case: stop
            // handing out batches once several hundred violation reports are in
            {
                let a = agg.lock().unwrap();
                let deaths = a.stats.get("worker_deaths").copied().unwrap_or(0);
                if a.violations.len() >= FLOOD || deaths >= DEATH_FLOOD {
                    break;
                }
            }
            let mut from = b * batch;
            let to = ((b + 1) * batch).min(n);
            while from < to {
                let args = vec![
                    "worker".to_string(),
                    id.to_string(),
                    tier.name().to_string(),
                    seed.to_string(),
                    from.to_string(),
                    to.to_string(),
                ];
                let (flavour, exe) = match (&asan_exe, &fast_exe) {
                    (Some(a), _) if b % 8 == 3 => ("asan", Some(a)),
                    (_, Some(f)) if b % 2 == 1 => ("fast", Some(f)),
                    _ => ("strict", None),
                };
                match flavour {
                    "fast" => *agg.lock().unwrap().stats.entry("batches_in_release_like_build".into()).or_insert(0) += 1,
                    "asan" => *agg.lock().unwrap().stats.entry("batches_in_address_sanitizer_build".into()).or_insert(0) += 1,
                    _ => {}
                }
                // the sanitizer costs about ten times the CPU
                let wd_s = if flavour == "asan" { watchdog_s * 12 } else { watchdog_s };
                let out = run_one_worker(exe.map(|p| p.as_path()), &args, wd_s, &registry, j as u64, t0, |c, v| {
                    agg.lock().unwrap().merge_case(c, v, flavour)
                });
                if let Some(e) = out.harness_error {
                    agg.lock().unwrap().harness_errors.push(e);
                    break;
                }
                match out.died_in {
                    Some(c) if out.last_progress.starts_with("minimise") && !out.pre_violations.is_empty() => {
                        // the worker died while shrinking: keep the announced, un-minimised
                        // violations; the death of a shrink candidate is not itself reported
                        let mut a = agg.lock().unwrap();
                        for v in out.pre_violations.iter() {
                            a.violations.push((c, v.clone()));
                        }
                        a.cases_done += 1;
                        *a.stats.entry("worker_deaths_while_minimising".into()).or_insert(0) += 1;
                        from = c + 1;
                    }
                    Some(c) => {
                        let sig = crash_sig(&out.how, &out.last_progress);
                        let v = Violation {
                            sig,
                            what: format!(
                                "{}worker process died ({}) in case {c} at '{}'",
                                if flavour == "strict" { String::new() } else { format!("[{flavour} build] ") },
                                out.how, out.last_progress
                            ),
                            replay: json!({"mode":"case","property":id,"seed":seed,"case":c,"tier":tier.name(),
                                "died": out.how, "at": out.last_progress, "flavour": flavour}),
                        };
                        let mut a = agg.lock().unwrap();
                        a.violations.push((c, v));
                        a.cases_done += 1;
                        *a.stats.entry("worker_deaths".into()).or_insert(0) += 1;
                        from = c + 1;
                    }
                    None => {
                        if !out.lines_ok {
                            agg.lock()
                                .unwrap()
                                .harness_errors
                                .push(format!("worker failed outside a case: {}", out.how));
                        }
                        break;
                    }
                }
            }
        }));
    }
    for h in handles {
        let _ = h.join();
    }
    stop.store(true, Ordering::Relaxed);
    let _ = wd.join();

    let mut agg = std::mem::take(&mut *agg.lock().unwrap());
    let total_reports = agg.violations.len();
    agg.violations.sort_by(|a, b| {
        (a.1.sig.to_string(), a.0).cmp(&(b.1.sig.to_string(), b.0))
    });

    // group by signature, keep the first (lowest case) of each
    let mut groups: Vec<(u64, Violation, u64)> = vec![];
    for (case, v) in agg.violations.iter() {
        if let Some(g) = groups.last_mut() {
            if g.1.sig == v.sig {
                g.2 += 1;
                continue;
            }
        }
        groups.push((*case, v.clone(), 1));
    }

    let known = load_known(id);
    let mut unknown = 0u64;
    let mut slow_cases = 0u64;
    let mut known_hit = vec![];
    let mut harness_errors = agg.harness_errors.clone();
    let replay_dir = verif_root().join("replays");
    let _ = std::fs::create_dir_all(&replay_dir);
    for (case, v, count) in groups.iter() {
        if let Some((_, what)) = known.iter().find(|(s, _)| s == &v.sig) {
            println!("KNOWN-FINDING: property={id} {what} [signature {}; {count} occurrence(s)]", v.sig);
            known_hit.push(json!({"signature": v.sig, "occurrences": count, "what": what}));
            continue;
        }
        // write the replay file and confirm it reproduces in a fresh process
        let name = format!(
            "{id}-{seed}-{case}-{:08x}.json",
            super::stable_hash_json(&v.sig) as u32
        );
        let path = replay_dir.join(name);
        let mut rp = v.replay.clone();
        if let Some(o) = rp.as_object_mut() {
            o.insert("property".into(), json!(id));
            o.entry("seed").or_insert(json!(seed));
            o.entry("case").or_insert(json!(case));
            o.entry("tier").or_insert(json!(tier.name()));
            o.insert("expect".into(), v.sig.clone());
            o.insert("what".into(), json!(v.what));
        }
        if let Err(e) = std::fs::write(&path, serde_json::to_string_pretty(&rp).unwrap()) {
            harness_errors.push(format!("cannot write replay {}: {e}", path.display()));
            continue;
        }
        // minimise once per signature, in a separate process (a shrink candidate may kill it);
        // crash replays ("mode": "case") are re-generated from the seed and are not shrunk
        if rp.get("mode").and_then(|m| m.as_str()) != Some("case") && std::env::var_os("CAOSIM_NO_SHRINK").is_none() {
            let registry = Arc::new(Mutex::new(BTreeMap::new()));
            let stop2 = Arc::new(AtomicBool::new(false));
            let tm = Instant::now();
            let wd2 = spawn_watchdog(registry.clone(), stop2.clone(), 300, tm);
            let args = vec!["minimise-worker".to_string(), id.to_string(), path.to_string_lossy().to_string()];
            let mexe = flavour_exe_of(&path);
            let out = run_one_worker(mexe.as_deref(), &args, 300, &registry, 0, tm, |_c, _v| {});
            stop2.store(true, Ordering::Relaxed);
            let _ = wd2.join();
            if let Some(mut m) = out.minimised {
                if let Some(o) = m.as_object_mut() {
                    for k in ["property", "seed", "case", "tier", "expect", "what"] {
                        if let Some(x) = rp.get(k) {
                            o.insert(k.to_string(), x.clone());
                        }
                    }
                    o.insert("minimised".into(), json!(true));
                }
                let min_path = path.with_extension("min.json");
                if std::fs::write(&min_path, serde_json::to_string_pretty(&m).unwrap()).is_ok() {
                    // keep the minimised file only if it reproduces the same signature
                    let sigs = replay_in_subprocess(id, &min_path, watchdog_s);
                    if sigs.iter().any(|s| s == &v.sig) {
                        let _ = std::fs::rename(&min_path, &path);
                    } else {
                        let _ = std::fs::remove_file(&min_path);
                    }
                }
            }
        }
        // A worker killed by the watchdog is a *suspected* hang. The simulation is deterministic, so
        // a real one hangs again; the replay gets ten times the CPU allowance, and a case that
        // finishes within it was merely slow (a loaded machine, an expensive program): it is
        // noted, not reported.
        let suspected_hang = v.sig.get("kind").and_then(|k| k.as_str()) == Some("crash") && v.sig.get("how").and_then(|k| k.as_str()) == Some("hang");
        let sigs = replay_in_subprocess(id, &path, if suspected_hang { watchdog_s * 10 } else { watchdog_s });
        if suspected_hang && sigs.is_empty() {
            slow_cases += 1;
            println!("NOTE: case {case} was stopped by the watchdog but finishes when replayed with ten times the allowance: slow, not hung ({})", v.what);
            let _ = std::fs::remove_file(&path);
            continue;
        }
        if sigs.iter().any(|s| s == &v.sig) {
            unknown += 1;
            println!("violation: {} [signature {}; {count} occurrence(s)]", v.what, v.sig);
            println!("VIOLATION property={id} replay={}", path.display());
        } else {
            harness_errors.push(format!(
                "violation did not replay (harness error, not reported as violation): {} sig={} got={:?} replay={}",
                v.what, v.sig, sigs.iter().map(|s| s.to_string()).collect::<Vec<_>>(), path.display()
            ));
        }
    }

    // reach probes
    let mut probe_fail = vec![];
    if agg.cases_done >= n {
        for p in check.required_probes(tier) {
            if agg.stats.get(&p).copied().unwrap_or(0) == 0 {
                probe_fail.push(p);
            }
        }
    }
    let flooded = total_reports >= FLOOD || agg.stats.get("worker_deaths").copied().unwrap_or(0) >= DEATH_FLOOD;
    if agg.cases_done < n {
        if flooded {
            println!("NOTE: stopped after {} of {n} cases: several hundred violation reports were in", agg.cases_done);
        } else {
            harness_errors.push(format!("only {} of {n} cases completed", agg.cases_done));
        }
    }
    for p in &probe_fail {
        if tier == Tier::Thorough {
            harness_errors.push(format!("reach probe stuck at zero: {p}"));
        } else {
            // the quick tier only warns: it is sized for speed, not for reaching every probe
            println!("WARNING: reach probe at zero in the quick tier: {p}");
        }
    }

    let wall = t0.elapsed().as_secs_f64();
    let evaluations = agg.stats.get("evaluations").copied().unwrap_or(0);
    let sim_time = agg.stats.get("dispatches").copied().unwrap_or(0);
    let mut samples: Vec<Value> = agg.samples.values().cloned().collect();
    if samples.is_empty() {
        samples.push(json!({"note": "no sample recorded"}));
    }
    let faults: BTreeMap<String, u64> = agg
        .stats
        .iter()
        .filter(|(k, _)| k.starts_with("fault:"))
        .map(|(k, v)| (k.clone(), *v))
        .collect();
    let reach: BTreeMap<String, u64> = agg
        .stats
        .iter()
        .filter(|(k, _)| k.starts_with("reach:") || k.starts_with("probe:"))
        .map(|(k, v)| (k.clone(), *v))
        .collect();
    let evidence = json!({
        "property_id": id,
        "tier": tier.name(),
        "seed": seed,
        "level": check.level(),
        "coverage": {
            "evaluations": evaluations,
            "distinct_nontrivial": agg.distinct.len(),
            "rule": check.rule(),
            "samples": samples,
            "cases": agg.cases_done,
            "simulated_runs_per_hour": if wall > 0.0 { (evaluations as f64 / wall * 3600.0) as u64 } else { 0 },
            "seeds_per_hour": if wall > 0.0 { (agg.cases_done as f64 / wall * 3600.0) as u64 } else { 0 },
            "simulated_time_dispatches": sim_time,
            "faults_fired": faults,
            "reach": reach,
            "counters": agg.stats,
            "components": check.components(),
            "known_findings_hit": known_hit,
            "distinct_violation_signatures": groups.len(),
            "harness_errors": harness_errors,
            "slow_cases_stopped_by_watchdog_and_finished_on_replay": slow_cases,
            "exhaustive": false,
        },
        "assumptions": check.assumptions(),
        "wall_s": wall,
        "violations": unknown,
    });
    let evdir = verif_root().join("evidence");
    let _ = std::fs::create_dir_all(&evdir);
    let evpath = evdir.join(format!("{id}.json"));
    if let Err(e) = std::fs::write(&evpath, serde_json::to_string_pretty(&evidence).unwrap()) {
        eprintln!("cannot write evidence: {e}");
        return 2;
    }
    println!(
        "caosim: property={id} cases={} runs={evaluations} distinct_nontrivial={} violations={unknown} known={} wall={wall:.1}s evidence={}",
        agg.cases_done,
        agg.distinct.len(),
        groups.len() as u64 - unknown - slow_cases - harness_errors.iter().filter(|e| e.starts_with("violation did not replay")).count() as u64,
        evpath.display()
    );
    if unknown > 0 {
        return 1;
    }
    if !harness_errors.is_empty() {
        for e in &harness_errors {
            eprintln!("HARNESS-ERROR: {e}");
            println!("HARNESS-ERROR: {e}");
        }
        return 2;
    }
    0
}

/// `caosim replay <id> <path>`: re-run and report whether the recorded signature reproduces
pub fn run_replay(check: &'static dyn Check, path: &std::path::Path) -> i32 {
    let id = check.id();
    let Ok(s) = std::fs::read_to_string(path) else {
        eprintln!("cannot read {}", path.display());
        return 2;
    };
    let Ok(rp) = serde_json::from_str::<Value>(&s) else {
        eprintln!("bad json in {}", path.display());
        return 2;
    };
    let expect = rp.get("expect").cloned().unwrap_or(Value::Null);
    // a recorded hang was confirmed with ten times the allowance (see run_check): same here
    let expects_hang = expect.get("how").and_then(|k| k.as_str()) == Some("hang");
    let tier = if rp.get("tier").and_then(|t| t.as_str()) == Some("thorough") { Tier::Thorough } else { Tier::Quick };
    let allowance = check.watchdog_s(tier) * if expects_hang { 10 } else { 1 };
    let sigs = replay_in_subprocess(id, path, allowance);
    for s in &sigs {
        println!("replay: signature {s}");
    }
    if sigs.iter().any(|s| s == &expect) || (expect.is_null() && !sigs.is_empty()) {
        println!("VIOLATION property={id} replay={}", path.display());
        1
    } else if sigs.is_empty() {
        println!("replay: no violation reproduced");
        0
    } else {
        println!("replay: different violation(s) than recorded");
        println!("VIOLATION property={id} replay={}", path.display());
        1
    }
}
