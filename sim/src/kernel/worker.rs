//! Worker process: executes a contiguous range of cases and reports one line per case.
//!
//! Protocol (stdout, line oriented):
//!   B <case>              case begins
//!   P <tag>               progress marker inside a case (flushed before risky steps)
//!   E <case> <json>       case ended: {"v":[violations],"st":{counters},"d":[distinct hashes],"sample":..}
//!   X <case> <msg>        harness error (panic that escaped the check's own isolation)
use super::{CaseCtx, Check, Tier};
use serde_json::{json, Value};
use std::cell::RefCell;
use std::io::Write;
use std::panic::{catch_unwind, AssertUnwindSafe};

#[derive(Clone, Debug, Default)]
pub struct PanicRecord {
    pub msg: String,
    pub file: String,
    pub line: u32,
}

thread_local! {
    static LAST_PANIC: RefCell<Option<PanicRecord>> = const { RefCell::new(None) };
}

/// Install a panic hook that records message + location instead of printing.
pub fn install_panic_hook() {
    std::panic::set_hook(Box::new(|info| {
        let msg = if let Some(s) = info.payload().downcast_ref::<&str>() {
            s.to_string()
        } else if let Some(s) = info.payload().downcast_ref::<String>() {
            s.clone()
        } else if let Some(nt) = info
            .payload()
            .downcast_ref::<cao_lang::verif::NonTermination>()
        {
            format!("nontermination:{}", nt.0)
        } else if info.payload().downcast_ref::<crate::ctl::Abort>().is_some() {
            "ctl-abort".to_string()
        } else {
            "<non-string panic>".to_string()
        };
        let (file, line) = info
            .location()
            .map(|l| (l.file().to_string(), l.line()))
            .unwrap_or_default();
        if std::env::var_os("CAOSIM_DEBUG").is_some() {
            eprintln!("panic: {msg} at {file}:{line}\n{}", std::backtrace::Backtrace::force_capture());
        }
        LAST_PANIC.with(|p| *p.borrow_mut() = Some(PanicRecord { msg, file, line }));
    }));
}

/// Run `f`, converting a panic into a record (message, file, line).
pub fn catch<T>(f: impl FnOnce() -> T) -> Result<T, PanicRecord> {
    LAST_PANIC.with(|p| *p.borrow_mut() = None);
    match catch_unwind(AssertUnwindSafe(f)) {
        Ok(v) => Ok(v),
        Err(_) => Err(LAST_PANIC
            .with(|p| p.borrow_mut().take())
            .unwrap_or_default()),
    }
}

/// Strip the machine specific prefix of a source path: keep from "src/" on.
pub fn short_path(p: &str) -> String {
    match p.rfind("/src/") {
        Some(i) => p[i + 1..].to_string(),
        None => p.to_string(),
    }
}

pub fn case_result_json(ctx: &CaseCtx) -> Value {
    json!({
        "v": ctx.violations.iter().map(|v| v.to_json()).collect::<Vec<_>>(),
        "st": ctx.stats,
        "d": ctx.distinct.iter().map(|h| format!("{h:x}")).collect::<Vec<_>>(),
        "sample": ctx.sample,
    })
}

pub fn run_worker(check: &dyn Check, tier: Tier, seed: u64, from: u64, to: u64) -> i32 {
    install_panic_hook();
    let stdout = std::io::stdout();
    for case in from..to {
        {
            let mut out = stdout.lock();
            let _ = writeln!(out, "B {case}");
            let _ = out.flush();
        }
        let mut ctx = CaseCtx::new(check.id(), seed, case, tier);
        let r = catch(|| check.run_case(&mut ctx));
        let mut out = stdout.lock();
        match r {
            Ok(()) => {
                let _ = writeln!(out, "E {case} {}", case_result_json(&ctx));
            }
            Err(p) => {
                let _ = writeln!(
                    out,
                    "X {case} harness panic: {} at {}:{}",
                    p.msg.replace('\n', " "),
                    p.file,
                    p.line
                );
                let _ = out.flush();
                return 2;
            }
        }
        let _ = out.flush();
    }
    0
}

/// Replay in a (sub)process: prints `E 0 <json>` like a worker
pub fn run_replay_worker(check: &dyn Check, replay: &Value) -> i32 {
    install_panic_hook();
    let tier = replay
        .get("tier")
        .and_then(|t| t.as_str())
        .and_then(Tier::parse)
        .unwrap_or(Tier::Quick);
    let seed = replay.get("seed").and_then(|s| s.as_u64()).unwrap_or(1);
    let case = replay.get("case").and_then(|s| s.as_u64()).unwrap_or(0);
    let stdout = std::io::stdout();
    {
        let mut out = stdout.lock();
        let _ = writeln!(out, "B {case}");
        let _ = out.flush();
    }
    let mut ctx = CaseCtx::new(check.id(), seed, case, tier);
    let r = catch(|| {
        if replay.get("mode").and_then(|m| m.as_str()) == Some("case") {
            check.run_case(&mut ctx)
        } else {
            check.replay(replay, &mut ctx)
        }
    });
    let mut out = stdout.lock();
    match r {
        Ok(()) => {
            let _ = writeln!(out, "E {case} {}", case_result_json(&ctx));
            let _ = out.flush();
            0
        }
        Err(p) => {
            let _ = writeln!(
                out,
                "X {case} harness panic: {} at {}:{}",
                p.msg.replace('\n', " "),
                p.file,
                p.line
            );
            let _ = out.flush();
            2
        }
    }
}

/// Minimise in a (sub)process: prints `M <json>` with the shrunk replay
pub fn run_minimise_worker(check: &dyn Check, replay: &Value) -> i32 {
    install_panic_hook();
    let sig = replay.get("expect").cloned().unwrap_or(Value::Null);
    let stdout = std::io::stdout();
    {
        let mut out = stdout.lock();
        let _ = writeln!(out, "B 0");
        let _ = out.flush();
    }
    let r = catch(|| check.minimise(replay, &sig));
    let mut out = stdout.lock();
    match r {
        Ok(v) => {
            let _ = writeln!(out, "M {v}");
            let _ = out.flush();
            0
        }
        Err(p) => {
            let _ = writeln!(out, "X 0 harness panic while minimising: {} at {}:{}", p.msg.replace('\n', " "), p.file, p.line);
            let _ = out.flush();
            2
        }
    }
}
