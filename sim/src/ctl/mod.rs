//! Controller side of the simulator: fault-injecting allocator, (later) VM controller.
pub mod fault_alloc;

/// Panic payload used by the controller to unwind a run deliberately
#[derive(Debug)]
pub struct Abort(pub &'static str);
pub mod vmctl;
pub mod obs;
pub mod vmrun;
