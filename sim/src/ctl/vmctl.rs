//! The VM controller: implements `cao_lang::verif::Controller`.
//!
//! It owns every simulator decision that concerns a running VM:
//!   * collector schedule (S1): before each allocation it stores into `next_gc` so that the
//!     *production* threshold branch collects (or does not) at this allocation;
//!   * allocation failure (S2): it lowers `limit` for one allocation so that the production
//!     failure path runs;
//!   * the clock (S3): it counts every dispatched instruction of every nested activation and can
//!     unwind the run when an observer budget is exceeded;
//! and it evaluates the invariants: heap audits A1/A2 over a quarantine of swept objects,
//! the allocation ledger, double-free detection.
use cao_lang::prelude::Value;
use cao_lang::verif::{CaoLangAllocator, Controller, View};
use cao_lang::vm::runtime::cao_lang_object::{CaoLangObject, CaoLangObjectBody};
use cao_lang::vm::runtime::RuntimeData;
use serde_json::{json, Value as Json};
use std::alloc::Layout;
use std::cell::RefCell;
use std::collections::{BTreeMap, BTreeSet};
use std::ptr::NonNull;
use std::rc::Rc;
use std::sync::atomic::Ordering;

pub const OPCODE_NAMES: [&str; 45] = [
    "Add", "Sub", "Mul", "Div", "CallNative", "ScalarInt", "ScalarFloat", "ScalarNil", "StringLiteral",
    "CopyLast", "Exit", "CallFunction", "Equals", "NotEquals", "Less", "LessOrEq", "Pop", "SetGlobalVar",
    "ReadGlobalVar", "SetLocalVar", "ReadLocalVar", "ClearStack", "Return", "SwapLast", "And", "Or", "Xor",
    "Not", "Goto", "GotoIfTrue", "GotoIfFalse", "InitTable", "GetProperty", "SetProperty", "Len",
    "BeginForEach", "ForEach", "FunctionPointer", "NativeFunctionPointer", "NthRow", "AppendTable",
    "PopTable", "Closure", "SetUpvalue", "ReadUpvalue",
];
pub fn opcode_name(op: u8) -> &'static str {
    match op {
        45 => "RegisterUpvalue",
        46 => "CloseUpvalue",
        255 => "<host>",
        _ => OPCODE_NAMES.get(op as usize).copied().unwrap_or("?"),
    }
}
pub const OP_CALL_NATIVE: u8 = 4;
pub const OP_CALL_FUNCTION: u8 = 11;

/// Collector schedule (seam S1)
#[derive(Clone, Debug, PartialEq)]
pub enum GcPlan {
    /// leave the production thresholds alone
    Natural,
    /// never collect (threshold pushed out of reach before every allocation)
    Never,
    /// collect at every allocation point
    Every,
    /// collect at exactly these allocation indices
    At(BTreeSet<u64>),
    /// collect at every k-th allocation (index % k == phase)
    EveryKth(u64, u64),
}

impl GcPlan {
    pub fn to_json(&self) -> Json {
        match self {
            GcPlan::Natural => json!("natural"),
            GcPlan::Never => json!("never"),
            GcPlan::Every => json!("every"),
            GcPlan::At(s) => json!({"at": s.iter().collect::<Vec<_>>()}),
            GcPlan::EveryKth(k, p) => json!({"kth": [k, p]}),
        }
    }
    pub fn from_json(v: &Json) -> Option<GcPlan> {
        if let Some(s) = v.as_str() {
            return match s {
                "natural" => Some(GcPlan::Natural),
                "never" => Some(GcPlan::Never),
                "every" => Some(GcPlan::Every),
                _ => None,
            };
        }
        if let Some(a) = v.get("at").and_then(|a| a.as_array()) {
            return Some(GcPlan::At(a.iter().filter_map(|x| x.as_u64()).collect()));
        }
        if let Some(a) = v.get("kth").and_then(|a| a.as_array()) {
            return Some(GcPlan::EveryKth(a.first()?.as_u64()?, a.get(1)?.as_u64()?));
        }
        None
    }
    fn collect_at(&self, idx: u64) -> Option<bool> {
        match self {
            GcPlan::Natural => None,
            GcPlan::Never => Some(false),
            GcPlan::Every => Some(true),
            GcPlan::At(s) => Some(s.contains(&idx)),
            GcPlan::EveryKth(k, p) => Some(*k > 0 && idx % *k == *p % *k),
        }
    }
}

#[derive(Clone, Debug)]
pub struct CtlConfig {
    pub gc: GcPlan,
    /// fail exactly this allocation index (through the production limit test)
    pub fail_alloc: Option<u64>,
    /// keep swept objects intact instead of releasing them, and audit reachability
    pub quarantine: bool,
    /// unwind the run as soon as more than this many instructions were dispatched
    pub abort_after_dispatches: Option<u64>,
    /// record a textual event log (determinism proof / debugging)
    pub event_log: bool,
    /// evaluate the accounting invariants at every allocator event
    pub ledger: bool,
}

impl Default for CtlConfig {
    fn default() -> Self {
        CtlConfig {
            gc: GcPlan::Natural,
            fail_alloc: None,
            quarantine: false,
            abort_after_dispatches: None,
            event_log: false,
            ledger: true,
        }
    }
}

#[derive(Clone, Debug)]
pub struct Finding {
    /// invariant / audit name
    pub kind: String,
    /// pointer-free details that go into the signature
    pub sig: Json,
    pub what: String,
}

#[derive(Clone, Debug)]
struct QInfo {
    gc_index: u64,
    site: String,
    kind: &'static str,
    ordinal: u64,
}

#[derive(Default, Clone, Debug)]
pub struct Counters {
    pub allocs: u64,
    pub alloc_fail_injected: u64,
    pub alloc_fail_natural: u64,
    pub gcs: u64,
    pub gcs_forced: u64,
    pub swept: u64,
    pub dispatches: u64,
    pub max_depth: u64,
    pub audits: u64,
    pub gc_sites: BTreeMap<String, u64>,
    pub fail_sites: BTreeMap<String, u64>,
    pub peak_allocated: usize,
    pub gc_with_open_upvalue: u64,
    pub gc_with_closure_frame: u64,
    pub gc_in_nested_activation: u64,
    pub gc_with_guard: u64,
    pub dangling_open_upvalue: u64,
    pub last_op: u8,
    pub timeout_depth: u64,
    pub peak_stack: usize,
    pub peak_calls: usize,
}

pub struct State {
    pub cfg: CtlConfig,
    pub c: Counters,
    pub findings: Vec<Finding>,
    pub events: Vec<String>,
    pub event_hash: u64,
    // activation / site tracking
    site_stack: Vec<u8>,
    host_stack: Vec<String>,
    host_depths: Vec<u64>,
    host_args: Vec<Vec<Value>>,
    instr_args: Vec<(usize, Vec<Value>)>,
    // allocation ledger
    ledger: BTreeMap<usize, (usize, usize, usize)>, // ptr -> (charged, size, align)
    pending_dealloc: Option<(usize, usize)>,        // (ptr, allocated before)
    alloc_before: usize,
    refunds_in_alloc: usize,
    in_alloc: bool,
    saved_limit: Option<usize>,
    saved_next_gc: Option<usize>,
    forced_this_alloc: bool,
    // objects
    obj_ordinal: BTreeMap<usize, u64>,
    next_ordinal: u64,
    quarantine: BTreeMap<usize, QInfo>,
    /// offset of the closure struct inside a closure object (learnt from the first one seen)
    closure_offset: Option<usize>,
    freed_objects: BTreeSet<usize>,
    guards: BTreeMap<usize, u32>,
    in_gc: bool,
    gc_epoch: u64,
    audited_epoch: Vec<u64>,
    reported_objects: BTreeSet<usize>,
    pre_gc_possible: BTreeSet<usize>,
    obj_layout_size: usize,
    /// handle -> arity of the crate's own native functions
    native_arity: BTreeMap<u32, usize>,
}

#[derive(Clone)]
pub struct VmCtl(pub Rc<RefCell<State>>);

struct Installed(Rc<RefCell<State>>);

impl VmCtl {
    pub fn new(cfg: CtlConfig) -> Self {
        VmCtl(Rc::new(RefCell::new(State {
            cfg,
            c: Counters::default(),
            findings: vec![],
            events: vec![],
            event_hash: 0xcbf29ce484222325,
            site_stack: vec![],
            host_stack: vec![],
            host_depths: vec![],
            host_args: vec![],
            instr_args: vec![],
            ledger: BTreeMap::new(),
            pending_dealloc: None,
            alloc_before: 0,
            refunds_in_alloc: 0,
            in_alloc: false,
            saved_limit: None,
            saved_next_gc: None,
            forced_this_alloc: false,
            obj_ordinal: BTreeMap::new(),
            next_ordinal: 0,
            quarantine: BTreeMap::new(),
            closure_offset: None,
            freed_objects: BTreeSet::new(),
            guards: BTreeMap::new(),
            in_gc: false,
            gc_epoch: 0,
            audited_epoch: vec![],
            reported_objects: BTreeSet::new(),
            pre_gc_possible: BTreeSet::new(),
            obj_layout_size: Layout::new::<CaoLangObject>().size(),
            native_arity: [("__min", 2usize), ("__max", 2), ("__sort", 2), ("__to_array", 1)]
                .iter()
                .map(|(n, a)| {
                    use std::str::FromStr;
                    (cao_lang::prelude::Handle::from_str(n).unwrap().value(), *a)
                })
                .collect(),
        })))
    }

    /// Install as the thread's controller
    pub fn install(&self) {
        cao_lang::verif::install(Box::new(Installed(self.0.clone())));
    }

    pub fn uninstall() {
        cao_lang::verif::uninstall();
    }

    pub fn counters(&self) -> Counters {
        self.0.borrow().c.clone()
    }

    pub fn findings(&self) -> Vec<Finding> {
        self.0.borrow().findings.clone()
    }

    pub fn take_events(&self) -> Vec<String> {
        std::mem::take(&mut self.0.borrow_mut().events)
    }

    pub fn event_hash(&self) -> u64 {
        self.0.borrow().event_hash
    }

    pub fn set_cfg(&self, f: impl FnOnce(&mut CtlConfig)) {
        f(&mut self.0.borrow_mut().cfg)
    }

    /// host stub entered: its arguments are roots until it returns
    pub fn host_enter(&self, name: &str, args: &[Value]) {
        let mut s = self.0.borrow_mut();
        s.host_stack.push(name.to_string());
        let d = s.site_stack.len() as u64;
        s.host_depths.push(d);
        s.host_args.push(args.to_vec());
    }

    pub fn host_exit(&self) {
        let mut s = self.0.borrow_mut();
        s.host_stack.pop();
        s.host_depths.pop();
        s.host_args.pop();
    }

    /// Run the reachability audit now (used by the harness at run end / host returns)
    /// at the end of a run no guard may be alive any more (guards are scoped to an instruction or a
    /// host call): an object whose guard was never released stays protected for ever
    pub fn check_no_live_guards(&self, when: &str) {
        let mut s = self.0.borrow_mut();
        let live: u32 = s.guards.values().sum();
        if live > 0 {
            s.finding(
                "guard-never-released",
                json!({"inv": "guard-never-released"}),
                format!("{live} object guard(s) created during the run were never released ({when}): the objects stay protected from collection until clear"),
            );
            // judged once per run
            s.guards.clear();
        }
    }

    pub fn audit_now(&self, rt: &RuntimeData, when: &str) {
        let mut s = self.0.borrow_mut();
        if s.cfg.quarantine {
            s.audit(&rt.verif_view(), when);
        }
    }

    /// Settle a pending refund and check the ledger against the allocator
    pub fn settle(&self, rt: &RuntimeData) {
        let mut s = self.0.borrow_mut();
        let view = rt.verif_view();
        let a: &CaoLangAllocator = view.memory;
        s.settle_pending(a);
    }

    /// number of objects currently in quarantine
    pub fn quarantined(&self) -> usize {
        self.0.borrow().quarantine.len()
    }

    /// Release the quarantined objects for real (quarantine must be switched off by the caller
    /// first; ledger checks are suspended while this runs).
    pub fn drain_quarantine(&self) -> Vec<NonNull<CaoLangObject>> {
        let mut s = self.0.borrow_mut();
        let q = std::mem::take(&mut s.quarantine);
        q.keys()
            .map(|p| NonNull::new(*p as *mut CaoLangObject).unwrap())
            .collect()
    }

    pub fn ledger_outstanding(&self) -> usize {
        self.0.borrow().ledger.len()
    }

    pub fn ledger_sum(&self) -> usize {
        self.0.borrow().ledger.values().map(|v| v.0).sum()
    }
}

fn kind_of(o: &CaoLangObject) -> &'static str {
    match &o.body {
        CaoLangObjectBody::Table(_) => "table",
        CaoLangObjectBody::String(_) => "string",
        CaoLangObjectBody::Function(_) => "function",
        CaoLangObjectBody::NativeFunction(_) => "native-function",
        CaoLangObjectBody::Closure(_) => "closure",
        CaoLangObjectBody::Upvalue(_) => "upvalue",
    }
}

impl State {
    pub fn ledger_len(&self) -> usize {
        self.ledger.len()
    }

    fn ev(&mut self, s: impl FnOnce() -> String) {
        if self.cfg.event_log {
            let line = s();
            for b in line.as_bytes() {
                self.event_hash ^= *b as u64;
                self.event_hash = self.event_hash.wrapping_mul(0x100000001b3);
            }
            self.event_hash ^= 0x0a;
            self.event_hash = self.event_hash.wrapping_mul(0x100000001b3);
            if self.events.len() < 200_000 {
                self.events.push(line);
            }
        }
    }

    fn finding(&mut self, kind: &str, sig: Json, what: String) {
        if self.findings.len() < 64 {
            self.findings.push(Finding {
                kind: kind.to_string(),
                sig,
                what,
            });
        }
    }

    pub fn site(&self) -> String {
        if let Some(h) = self.host_stack.last() {
            // a host stub is executing; but if a nested activation runs below it the innermost
            // activation's opcode is the site
            if self.site_stack.len() as u64 > self.host_depth_marker() {
                return opcode_name(*self.site_stack.last().unwrap_or(&255)).to_string();
            }
            return format!("native:{h}");
        }
        opcode_name(*self.site_stack.last().unwrap_or(&255)).to_string()
    }

    /// activation depth at which the innermost host stub was entered
    fn host_depth_marker(&self) -> u64 {
        self.host_depths.last().copied().unwrap_or(0)
    }

    fn settle_pending(&mut self, a: &CaoLangAllocator) {
        if let Some((ptr, before)) = self.pending_dealloc.take() {
            let now = a.allocated.load(Ordering::Relaxed);
            let refund = before.wrapping_sub(now);
            if self.in_alloc {
                self.refunds_in_alloc = self.refunds_in_alloc.wrapping_add(refund);
            }
            match self.ledger.remove(&ptr) {
                Some((charged, size, align)) => {
                    if self.cfg.ledger && refund != charged {
                        self.finding(
                            "refund-mismatch",
                            json!({"inv": "refund-equals-charge"}),
                            format!("block of size {size} align {align} was charged {charged} but refunded {refund}"),
                        );
                    }
                }
                None => {}
            }
        }
    }

    fn note_object_alloc(&mut self, ptr: usize) {
        let o = self.next_ordinal;
        self.next_ordinal += 1;
        self.obj_ordinal.insert(ptr, o);
        self.freed_objects.remove(&ptr);
    }

    /// compute the set of objects reachable from the root set; returns map obj -> (root class, edge)
    fn reachable(&mut self, view: &View<'_>) -> BTreeMap<usize, (&'static str, &'static str)> {
        let mut seen: BTreeMap<usize, (&'static str, &'static str)> = BTreeMap::new();
        let mut work: Vec<(usize, &'static str)> = vec![];
        let mut push_val = |v: &Value, class: &'static str, edge: &'static str, seen: &mut BTreeMap<usize, (&'static str, &'static str)>, work: &mut Vec<(usize, &'static str)>| {
            if let Value::Object(p) = v {
                let k = p.as_ptr() as usize;
                if !seen.contains_key(&k) {
                    seen.insert(k, (class, edge));
                    work.push((k, class));
                }
            }
        };
        for v in view.value_stack.iter() {
            push_val(v, "stack", "root", &mut seen, &mut work);
        }
        for v in view.globals.iter() {
            push_val(v, "global", "root", &mut seen, &mut work);
        }
        // frame closures: find the object that embeds the closure struct
        // The closure struct sits at a fixed offset inside its object: learn the offset from the
        // first closure object seen (scanning everything at every collection is quadratic once
        // the quarantine has grown), then go from a frame's closure pointer straight to its object.
        let mut closure_objs: BTreeMap<usize, usize> = BTreeMap::new();
        if view.frames.iter().any(|f| !f.closure.is_null()) {
            if self.closure_offset.is_none() {
                let known = view.object_list.iter().map(|p| p.as_ptr() as usize).chain(self.quarantine.keys().copied());
                for p in known {
                    let o = unsafe { &*(p as *const CaoLangObject) };
                    if let CaoLangObjectBody::Closure(c) = &o.body {
                        self.closure_offset = Some(c as *const _ as usize - p);
                        break;
                    }
                }
            }
            if let Some(off) = self.closure_offset {
                let live: BTreeSet<usize> = view.object_list.iter().map(|p| p.as_ptr() as usize).collect();
                for f in view.frames.iter().filter(|f| !f.closure.is_null()) {
                    let obj = (f.closure as usize).wrapping_sub(off);
                    if live.contains(&obj) || self.quarantine.contains_key(&obj) {
                        let o = unsafe { &*(obj as *const CaoLangObject) };
                        if let CaoLangObjectBody::Closure(c) = &o.body {
                            if c as *const _ as usize == f.closure as usize {
                                closure_objs.insert(f.closure as usize, obj);
                            }
                        }
                    }
                }
            }
        }
        for f in view.frames.iter() {
            if !f.closure.is_null() {
                if let Some(obj) = closure_objs.get(&(f.closure as usize)) {
                    if !seen.contains_key(obj) {
                        seen.insert(*obj, ("frame-closure", "root"));
                        work.push((*obj, "frame-closure"));
                    }
                }
            }
        }
        // The list of open upvalues is not a root: an upvalue is reachable through the closures
        // that use it (and, while it is being created, through its guard). The walk only counts
        // the unclosed ones: upvalues whose variable has left the stack without a CloseUpvalue.
        let stack_lo = view.value_stack.as_ptr() as usize;
        let stack_hi = stack_lo + view.value_stack.len() * std::mem::size_of::<Value>();
        let stack_end = stack_lo + view.value_stack_capacity * std::mem::size_of::<Value>();
        let mut up = view.open_upvalues;
        let mut guard = 0;
        while !up.is_null() && guard < 100_000 {
            guard += 1;
            let k = up as usize;
            let o = unsafe { &*up };
            let CaoLangObjectBody::Upvalue(u) = &o.body else { break };
            let loc = u.location as usize;
            if !(loc >= stack_lo && loc < stack_hi) {
                self.c.dangling_open_upvalue += 1;
                if std::env::var_os("CAOSIM_DEBUG").is_some() {
                    let slot = (loc as isize - stack_lo as isize) / std::mem::size_of::<Value>() as isize;
                    eprintln!("unclosed upvalue obj#{:?} slot={} stack_len={}", self.obj_ordinal.get(&k), slot, view.value_stack.len());
                }
            }
            up = u.next;
        }
        for (g, n) in self.guards.iter() {
            if *n > 0 && !seen.contains_key(g) {
                seen.insert(*g, ("guard", "root"));
                work.push((*g, "guard"));
            }
        }
        let host_args: Vec<Value> = self
            .host_args
            .iter()
            .flatten()
            .copied()
            .chain(self.instr_args.iter().flat_map(|(_, a)| a.iter().copied()))
            .collect();
        for v in host_args.iter() {
            push_val(v, "host-arg", "root", &mut seen, &mut work);
        }
        while let Some((p, class)) = work.pop() {
            let o = unsafe { &*(p as *const CaoLangObject) };
            match &o.body {
                CaoLangObjectBody::Table(t) => {
                    for k in t.keys().iter() {
                        push_val(k, class, "table-key", &mut seen, &mut work);
                    }
                    // the map's own view: transiently ahead of `keys` inside insert
                    let m: &cao_lang::collections::hash_map::CaoHashMap<Value, Value, cao_lang::verif::AllocProxy> = t;
                    for (k, v) in m.iter() {
                        push_val(k, class, "table-key", &mut seen, &mut work);
                        push_val(v, class, "table-value", &mut seen, &mut work);
                    }
                }
                CaoLangObjectBody::Closure(c) => {
                    for u in c.upvalues.iter() {
                        let k = u.as_ptr() as usize;
                        if !seen.contains_key(&k) {
                            seen.insert(k, (class, "closure-upvalue"));
                            work.push((k, class));
                        }
                    }
                }
                CaoLangObjectBody::Upvalue(u) => {
                    let loc = u.location as usize;
                    let own = &u.value as *const Value as usize;
                    // a closure reads its captured variable through `location` wherever that points:
                    // its own closed value, a live stack slot, or (unclosed upvalue) a slot above
                    // the stack top, which is still memory of the value stack
                    if loc == own || (loc >= stack_lo && loc < stack_end) {
                        let v = unsafe { &*u.location };
                        push_val(v, class, "upvalue-target", &mut seen, &mut work);
                    }
                }
                _ => {}
            }
        }
        seen
    }

    /// A1 / A2: no reachable object may be in the quarantine
    pub fn audit(&mut self, view: &View<'_>, when: &str) {
        if self.quarantine.is_empty() {
            return;
        }
        self.c.audits += 1;
        let reach = self.reachable(view);
        let mut hits: Vec<(usize, (&'static str, &'static str))> = reach
            .iter()
            .filter(|(p, _)| self.quarantine.contains_key(p) && !self.reported_objects.contains(p))
            .map(|(p, c)| (*p, *c))
            .collect();
        // deterministic order: by ordinal
        hits.sort_by_key(|(p, _)| self.quarantine.get(p).map(|q| q.ordinal).unwrap_or(u64::MAX));
        for (p, (class, edge)) in hits {
            self.reported_objects.insert(p);
            let q = self.quarantine.get(&p).cloned().unwrap();
            self.finding(
                "reachable-object-swept",
                json!({"inv": "reachable-object-swept", "site": q.site, "kind": q.kind, "root": class, "edge": edge}),
                format!(
                    "{} #{} was swept by collection #{} (started inside {}) but is reachable from {} via {} (detected {})",
                    q.kind, q.ordinal, q.gc_index, q.site, class, edge, when
                ),
            );
        }
    }
}

impl Controller for Installed {
    fn before_alloc(&mut self, a: &CaoLangAllocator, l: Layout) {
        let mut s = self.0.borrow_mut();
        s.settle_pending(a);
        let idx = s.c.allocs;
        s.c.allocs += 1;
        s.in_alloc = true;
        s.refunds_in_alloc = 0;
        s.alloc_before = a.allocated.load(Ordering::Relaxed);
        s.forced_this_alloc = false;
        if s.cfg.quarantine {
            // accounting is meaningless while swept memory is withheld: keep the limit out of reach
            a.limit.store(usize::MAX / 4, Ordering::Relaxed);
        }
        if let Some(collect) = s.cfg.gc.collect_at(idx) {
            s.saved_next_gc = Some(a.next_gc.load(Ordering::Relaxed));
            if collect {
                a.next_gc.store(0, Ordering::Relaxed);
                s.forced_this_alloc = true;
            } else {
                a.next_gc.store(usize::MAX / 2, Ordering::Relaxed);
            }
        }
        if s.cfg.fail_alloc == Some(idx) {
            s.saved_limit = Some(a.limit.load(Ordering::Relaxed));
            a.limit.store(0, Ordering::Relaxed);
        }
        let (size, align) = (l.size(), l.align());
        s.ev(|| format!("A {idx} size={size} align={align}"));
    }

    fn after_alloc(&mut self, a: &CaoLangAllocator, l: Layout, res: Option<NonNull<u8>>) {
        let mut s = self.0.borrow_mut();
        s.settle_pending(a);
        let injected = s.saved_limit.is_some();
        if let Some(lim) = s.saved_limit.take() {
            a.limit.store(lim, Ordering::Relaxed);
        }
        if s.saved_next_gc.take().is_some() && s.cfg.gc != GcPlan::Natural {
            // keep the threshold out of reach between allocations too
            a.next_gc.store(usize::MAX / 2, Ordering::Relaxed);
        }
        let now = a.allocated.load(Ordering::Relaxed);
        let delta = now.wrapping_add(s.refunds_in_alloc).wrapping_sub(s.alloc_before);
        s.in_alloc = false;
        let site = s.site();
        match res {
            Some(p) => {
                let ptr = p.as_ptr() as usize;
                s.ledger.insert(ptr, (delta, l.size(), l.align()));
                if l.size() == s.obj_layout_size && l.align() == std::mem::align_of::<CaoLangObject>() {
                    s.note_object_alloc(ptr);
                }
                if now > s.c.peak_allocated {
                    s.c.peak_allocated = now;
                }
                if s.cfg.ledger && !s.cfg.quarantine {
                    if delta < l.size() || delta > l.size() + 2 * l.align() + 16 {
                        s.finding(
                            "charge-out-of-range",
                            json!({"inv": "charge-covers-block"}),
                            format!("allocation of size {} align {} moved the counter by {delta}", l.size(), l.align()),
                        );
                    }
                    let limit = a.limit.load(Ordering::Relaxed);
                    if now > limit {
                        s.finding(
                            "accounted-above-limit",
                            json!({"inv": "allocated<=limit"}),
                            format!("accounted {now} > limit {limit} after a successful allocation"),
                        );
                    }
                }
                s.ev(|| format!("A+ charged={delta}"));
            }
            None => {
                if injected {
                    s.c.alloc_fail_injected += 1;
                } else {
                    s.c.alloc_fail_natural += 1;
                }
                *s.c.fail_sites.entry(site).or_insert(0) += 1;
                if s.cfg.ledger && !s.cfg.quarantine && delta != 0 {
                    s.finding(
                        "failed-alloc-changed-counter",
                        json!({"inv": "failed-alloc-leaves-counter"}),
                        format!(
                            "a failed allocation of size {} align {} left the accounted counter changed by {}",
                            l.size(),
                            l.align(),
                            delta as isize
                        ),
                    );
                }
                s.ev(|| format!("A- delta={}", delta as isize));
            }
        }
    }

    fn on_dealloc(&mut self, a: &CaoLangAllocator, p: NonNull<u8>, l: Layout) {
        let mut s = self.0.borrow_mut();
        s.settle_pending(a);
        let ptr = p.as_ptr() as usize;
        if !s.ledger.contains_key(&ptr) && s.cfg.ledger {
            s.finding(
                "release-of-unknown-block",
                json!({"inv": "release-of-outstanding-block"}),
                format!("block of size {} released that is not outstanding (double free?)", l.size()),
            );
        }
        s.pending_dealloc = Some((ptr, a.allocated.load(Ordering::Relaxed)));
        let size = l.size();
        s.ev(|| format!("D size={size}"));
    }

    fn before_gc(&mut self, rt: &RuntimeData) {
        let mut s = self.0.borrow_mut();
        {
            let a: &CaoLangAllocator = &rt.verif_memory();
            s.settle_pending(a);
        }
        s.in_gc = true;
        s.c.gcs += 1;
        if s.forced_this_alloc {
            s.c.gcs_forced += 1;
        }
        s.gc_epoch += 1;
        let site = s.site();
        *s.c.gc_sites.entry(site.clone()).or_insert(0) += 1;
        let view = rt.verif_view();
        if !view.open_upvalues.is_null() {
            s.c.gc_with_open_upvalue += 1;
        }
        if view.frames.iter().any(|f| !f.closure.is_null()) {
            s.c.gc_with_closure_frame += 1;
        }
        if s.site_stack.len() > 1 {
            s.c.gc_in_nested_activation += 1;
        }
        if s.guards.values().any(|n| *n > 0) {
            s.c.gc_with_guard += 1;
        }
        if s.cfg.quarantine {
            // what could possibly be reachable before the sweep (C05: everything else must go)
            let reach = s.reachable(&view);
            s.pre_gc_possible = reach.keys().copied().collect();
        }
        let n = s.c.gcs;
        s.ev(|| format!("GC{n} begin site={site}"));
    }

    fn after_gc(&mut self, rt: &RuntimeData) {
        let mut s = self.0.borrow_mut();
        {
            let a: &CaoLangAllocator = &rt.verif_memory();
            s.settle_pending(a);
        }
        s.in_gc = false;
        let view = rt.verif_view();
        if s.cfg.quarantine {
            // unreachable objects must have been reclaimed: survivors are a subset of what was
            // possibly reachable (roots incl. guards/host args) before the sweep
            let mut unreclaimed = 0u64;
            let mut kinds: BTreeMap<&'static str, u64> = BTreeMap::new();
            for p in view.object_list.iter() {
                let k = p.as_ptr() as usize;
                if !s.pre_gc_possible.contains(&k) {
                    unreclaimed += 1;
                    *kinds.entry(kind_of(unsafe { p.as_ref() })).or_insert(0) += 1;
                    if std::env::var_os("CAOSIM_DEBUG").is_some() {
                        let o = unsafe { p.as_ref() };
                        eprintln!("unreclaimed obj#{:?} {} marker={:?} gc#{} site={} guards={:?}", s.obj_ordinal.get(&k), kind_of(o), o.marker, s.c.gcs, s.site(), s.guards.len());
                    }
                }
            }
            if unreclaimed > 0 {
                s.finding(
                    "garbage-not-reclaimed",
                    json!({"inv": "unreachable-objects-reclaimed"}),
                    format!("{unreclaimed} object(s) unreachable from every root survived a collection ({kinds:?})"),
                );
            }
            s.audit(&view, "immediately after the collection");
        }
        let n = s.c.gcs;
        let live = view.object_list.len();
        s.ev(|| format!("GC{n} end live={live}"));
    }

    fn on_free_object(&mut self, rt: &RuntimeData, obj: NonNull<CaoLangObject>) -> bool {
        let mut s = self.0.borrow_mut();
        {
            let a: &CaoLangAllocator = &rt.verif_memory();
            s.settle_pending(a);
        }
        let p = obj.as_ptr() as usize;
        if s.freed_objects.contains(&p) || s.quarantine.contains_key(&p) {
            let site = s.site();
            s.finding(
                "double-free-object",
                json!({"inv": "object-freed-once", "site": site}),
                format!("free_object called twice on the same object (second call inside {site})"),
            );
            return true; // withhold: the worker must survive to report
        }
        if s.in_gc {
            s.c.swept += 1;
        }
        let ord = s.obj_ordinal.get(&p).copied().unwrap_or(u64::MAX);
        if s.cfg.quarantine && s.in_gc {
            let kind = kind_of(unsafe { obj.as_ref() });
            let q = QInfo {
                gc_index: s.c.gcs,
                site: s.site(),
                kind,
                ordinal: ord,
            };
            s.quarantine.insert(p, q);
            s.ev(|| format!("Q obj#{ord} {kind}"));
            return true;
        }
        s.freed_objects.insert(p);
        s.ev(|| format!("F obj#{ord}"));
        false
    }

    fn on_dispatch(&mut self, opcode: u8, _src_ptr: usize, rt: &RuntimeData) {
        let mut s = self.0.borrow_mut();
        s.c.dispatches += 1;
        s.c.last_op = opcode;
        let (h, d) = (rt.verif_stack_height(), rt.verif_call_depth());
        if h > s.c.peak_stack {
            s.c.peak_stack = h;
        }
        if d > s.c.peak_calls {
            s.c.peak_calls = d;
        }
        if let Some(t) = s.site_stack.last_mut() {
            *t = opcode;
        }
        let depth = s.site_stack.len();
        // drop instruction-argument roots of finished instructions at this depth
        while s.instr_args.last().map(|(d, _)| *d >= depth).unwrap_or(false) {
            s.instr_args.pop();
        }
        if opcode == OP_CALL_NATIVE || opcode == OP_CALL_FUNCTION {
            // The parameters of a host function are roots while it runs. Harness stubs announce
            // their exact parameters themselves (host_enter); for the crate's own natives
            // (__min/__max/__sort/__to_array) the parameters are the top `arity` stack values.
            let view = rt.verif_view();
            let st = view.value_stack;
            let (handle, skip): (Option<u32>, usize) = if opcode == OP_CALL_NATIVE {
                let h = view.bytecode.and_then(|b| {
                    let at = _src_ptr + 1;
                    b.get(at..at + 4).map(|x| u32::from_le_bytes([x[0], x[1], x[2], x[3]]))
                });
                (h, 0)
            } else {
                match st.last() {
                    Some(Value::Object(o)) => match unsafe { &o.as_ref().body } {
                        CaoLangObjectBody::NativeFunction(f) => (Some(f.handle.value()), 1),
                        _ => (None, 1),
                    },
                    _ => (None, 1),
                }
            };
            if let Some(h) = handle {
                let arity = s.native_arity.get(&h).copied().unwrap_or(0);
                if arity > 0 && st.len() >= skip {
                    let hi = st.len() - skip;
                    let lo = hi.saturating_sub(arity);
                    let args = st[lo..hi].to_vec();
                    s.instr_args.push((depth, args));
                }
            }
        }
        if s.cfg.event_log {
            let n = s.c.dispatches;
            s.ev(|| format!("I {n} d={depth} {}", opcode_name(opcode)));
        }
        if let Some(limit) = s.cfg.abort_after_dispatches {
            if s.c.dispatches > limit {
                s.c.timeout_depth = depth as u64;
                drop(s);
                std::panic::panic_any(crate::ctl::Abort("dispatch-budget-exceeded"));
            }
        }
    }

    fn after_instr(&mut self, rt: &RuntimeData) {
        let mut s = self.0.borrow_mut();
        let h = rt.verif_stack_height();
        if h > s.c.peak_stack {
            s.c.peak_stack = h;
        }
        let depth = s.site_stack.len();
        while s.instr_args.last().map(|(d, _)| *d >= depth).unwrap_or(false) {
            s.instr_args.pop();
        }
        if s.cfg.quarantine && depth > 0 {
            if s.audited_epoch.len() < depth {
                s.audited_epoch.resize(depth, 0);
            }
            if s.audited_epoch[depth - 1] < s.gc_epoch {
                s.audited_epoch[depth - 1] = s.gc_epoch;
                let view = rt.verif_view();
                s.audit(&view, "at the next instruction boundary");
            }
        }
    }

    fn run_enter(&mut self, _rt: &RuntimeData) {
        let mut s = self.0.borrow_mut();
        s.site_stack.push(255);
        let d = s.site_stack.len() as u64;
        if d > s.c.max_depth {
            s.c.max_depth = d;
        }
        s.ev(|| format!("R+ d={d}"));
    }

    fn run_exit(&mut self) {
        let mut s = self.0.borrow_mut();
        let depth = s.site_stack.len();
        while s.instr_args.last().map(|(d, _)| *d >= depth).unwrap_or(false) {
            s.instr_args.pop();
        }
        s.site_stack.pop();
        let keep = s.site_stack.len();
        s.audited_epoch.truncate(keep);
        s.ev(|| "R-".to_string());
    }

    fn guard_created(&mut self, obj: NonNull<CaoLangObject>) {
        let mut s = self.0.borrow_mut();
        *s.guards.entry(obj.as_ptr() as usize).or_insert(0) += 1;
    }

    fn guard_released(&mut self, obj: NonNull<CaoLangObject>) {
        let mut s = self.0.borrow_mut();
        let k = obj.as_ptr() as usize;
        if let Some(n) = s.guards.get_mut(&k) {
            *n = n.saturating_sub(1);
            if *n == 0 {
                s.guards.remove(&k);
            }
        }
    }
}
