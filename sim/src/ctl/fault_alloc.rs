//! `FaultAlloc`: a harness allocator for the generic containers (`CaoHashMap<K,V,A>`,
//! `HandleTable<T,A>`). It stands in for the system allocator (stub), counts calls, fails the
//! j-th call on request and keeps a ledger of outstanding blocks so that leaks, double frees and
//! frees with a different layout are reported.
use cao_lang::verif::{AllocError, Allocator};
use std::alloc::Layout;
use std::cell::{Cell, RefCell};
use std::collections::BTreeMap;
use std::ptr::NonNull;
use std::rc::Rc;

#[derive(Default)]
pub struct FaultState {
    pub calls: Cell<u64>,
    /// fail the call with this index (0-based), once
    pub fail_at: Cell<Option<u64>>,
    pub fired: Cell<u64>,
    pub live: RefCell<BTreeMap<usize, (usize, usize)>>,
    pub errors: RefCell<Vec<String>>,
    pub bytes_live: Cell<usize>,
    pub bytes_peak: Cell<usize>,
}

#[derive(Clone, Default)]
pub struct FaultAlloc(pub Rc<FaultState>);

impl FaultAlloc {
    pub fn new() -> Self {
        Self::default()
    }
    pub fn calls(&self) -> u64 {
        self.0.calls.get()
    }
    pub fn fail_at(&self, j: Option<u64>) {
        self.0.fail_at.set(j)
    }
    pub fn fired(&self) -> u64 {
        self.0.fired.get()
    }
    pub fn outstanding(&self) -> usize {
        self.0.live.borrow().len()
    }
    pub fn take_errors(&self) -> Vec<String> {
        std::mem::take(&mut *self.0.errors.borrow_mut())
    }
}

impl Allocator for FaultAlloc {
    unsafe fn alloc(&self, l: Layout) -> Result<NonNull<u8>, AllocError> {
        let idx = self.0.calls.get();
        self.0.calls.set(idx + 1);
        if self.0.fail_at.get() == Some(idx) {
            self.0.fail_at.set(None);
            self.0.fired.set(self.0.fired.get() + 1);
            return Err(AllocError::OutOfMemory);
        }
        // never hand a zero-sized request to the system allocator; over-allocate by a small
        // red zone filled with a pattern so that small overruns are visible at free time
        let size = l.size().max(1) + 16;
        let real = Layout::from_size_align(size, l.align().max(1)).unwrap();
        let p = std::alloc::alloc(real);
        if p.is_null() {
            return Err(AllocError::OutOfMemory);
        }
        std::ptr::write_bytes(p, 0xA5, size);
        self.0
            .live
            .borrow_mut()
            .insert(p as usize, (l.size(), l.align()));
        let b = self.0.bytes_live.get() + l.size();
        self.0.bytes_live.set(b);
        if b > self.0.bytes_peak.get() {
            self.0.bytes_peak.set(b);
        }
        Ok(NonNull::new_unchecked(p))
    }

    unsafe fn dealloc(&self, p: NonNull<u8>, l: Layout) {
        let key = p.as_ptr() as usize;
        let entry = self.0.live.borrow_mut().remove(&key);
        match entry {
            None => {
                self.0
                    .errors
                    .borrow_mut()
                    .push("free-of-unknown-or-freed-block".to_string());
                // withhold the real free: the run must survive to report
            }
            Some((size, align)) => {
                if size != l.size() || align != l.align() {
                    self.0.errors.borrow_mut().push(format!(
                        "free-with-different-layout alloc=({size},{align}) free=({},{})",
                        l.size(),
                        l.align()
                    ));
                }
                // red zone check
                let rz = std::slice::from_raw_parts(p.as_ptr().add(size.max(1)), 16);
                if rz.iter().any(|b| *b != 0xA5) {
                    self.0
                        .errors
                        .borrow_mut()
                        .push("write-past-end-of-block".to_string());
                }
                self.0.bytes_live.set(self.0.bytes_live.get() - size);
                let real = Layout::from_size_align(size.max(1) + 16, align.max(1)).unwrap();
                std::alloc::dealloc(p.as_ptr(), real);
            }
        }
    }
}

/// Drop-counting payload with a unique id
pub struct Tracked {
    /// unique per instance (drop accounting)
    pub id: u64,
    /// logical value, preserved by clone (model comparison)
    pub tag: u64,
    pub log: Rc<DropLog>,
}

#[derive(Default)]
pub struct DropLog {
    pub created: Cell<u64>,
    pub drops: RefCell<BTreeMap<u64, u32>>,
}

impl DropLog {
    pub fn make(self: &Rc<Self>, tag: u64) -> Tracked {
        let id = self.created.get();
        self.created.set(id + 1);
        Tracked {
            id,
            tag,
            log: self.clone(),
        }
    }
    pub fn drops_of(&self, id: u64) -> u32 {
        self.drops.borrow().get(&id).copied().unwrap_or(0)
    }
}

impl Drop for Tracked {
    fn drop(&mut self) {
        *self.log.drops.borrow_mut().entry(self.id).or_insert(0) += 1;
    }
}

impl Clone for Tracked {
    fn clone(&self) -> Self {
        // a clone is a new element with its own identity and the same logical value
        self.log.make(self.tag)
    }
}
