//! Pointer-free observations of runtime values ("what a user can see").
//!
//! Deep copies never hash or compare runtime values (hashing / comparing a self-referential
//! table does not terminate in the crate): table entries are read through `keys()` and the raw
//! bucket iteration of the map and associated by bit-identity of the key.
use cao_lang::collections::hash_map::CaoHashMap;
use cao_lang::prelude::Value;
use cao_lang::verif::AllocProxy;
use cao_lang::vm::runtime::cao_lang_object::CaoLangObjectBody;
use serde::{Deserialize, Serialize};

#[derive(Clone, Debug, PartialEq, Serialize, Deserialize)]
pub enum Obs {
    Nil,
    Int(i64),
    /// bit pattern
    Real(u64),
    Str(String),
    /// ordered entries, then the number of map entries that are not listed in the key order
    Table(Vec<(Obs, Obs)>, usize),
    Func {
        kind: String,
        handle: u32,
        arity: u32,
    },
    Upvalue,
    /// back reference to an object already being visited (by visit ordinal)
    Ref(usize),
}

pub fn same_bits(a: &Value, b: &Value) -> bool {
    match (a, b) {
        (Value::Nil, Value::Nil) => true,
        (Value::Integer(x), Value::Integer(y)) => x == y,
        (Value::Real(x), Value::Real(y)) => x.to_bits() == y.to_bits(),
        (Value::Object(x), Value::Object(y)) => x.as_ptr() == y.as_ptr(),
        _ => false,
    }
}

pub fn observe(v: Value) -> Obs {
    let mut path: Vec<usize> = vec![];
    observe_rec(v, &mut path, 0)
}

fn observe_rec(v: Value, path: &mut Vec<usize>, depth: usize) -> Obs {
    match v {
        Value::Nil => Obs::Nil,
        Value::Integer(i) => Obs::Int(i),
        Value::Real(r) => Obs::Real(r.to_bits()),
        Value::Object(p) => {
            let key = p.as_ptr() as usize;
            if let Some(i) = path.iter().position(|x| *x == key) {
                return Obs::Ref(i);
            }
            if depth > 200 {
                return Obs::Ref(usize::MAX);
            }
            let o = unsafe { p.as_ref() };
            match &o.body {
                CaoLangObjectBody::String(s) => Obs::Str(s.as_str().to_string()),
                CaoLangObjectBody::Function(f) => Obs::Func {
                    kind: "function".into(),
                    handle: f.handle.value(),
                    arity: f.arity,
                },
                CaoLangObjectBody::NativeFunction(f) => Obs::Func {
                    kind: "native".into(),
                    handle: f.handle.value(),
                    arity: 0,
                },
                CaoLangObjectBody::Closure(c) => Obs::Func {
                    kind: "closure".into(),
                    handle: c.function.handle.value(),
                    arity: c.function.arity,
                },
                CaoLangObjectBody::Upvalue(_) => Obs::Upvalue,
                CaoLangObjectBody::Table(t) => {
                    path.push(key);
                    let m: &CaoHashMap<Value, Value, AllocProxy> = t;
                    let raw: Vec<(Value, Value)> = m.iter().map(|(k, v)| (*k, *v)).collect();
                    let mut used = vec![false; raw.len()];
                    let mut entries = Vec::with_capacity(t.keys().len());
                    for k in t.keys().iter() {
                        let mut val = None;
                        for (i, (rk, rv)) in raw.iter().enumerate() {
                            if !used[i] && same_bits(rk, k) {
                                used[i] = true;
                                val = Some(*rv);
                                break;
                            }
                        }
                        let ko = observe_rec(*k, path, depth + 1);
                        // the value is only followed if the table's own lookup still finds it: a
                        // key that was mutated after the insert (a table used as a key) hashes
                        // differently now, the entry is beyond the program's reach and the
                        // collector is free to reclaim what it held
                        let reachable = m.get(k).is_some();
                        let vo = match val {
                            Some(v) if reachable => observe_rec(v, path, depth + 1),
                            Some(_) => Obs::Ref(usize::MAX - 2), // stored, but no lookup finds it
                            None => Obs::Ref(usize::MAX - 1), // key listed but not in the map
                        };
                        entries.push((ko, vo));
                    }
                    let orphans = used.iter().filter(|u| !**u).count();
                    path.pop();
                    Obs::Table(entries, orphans)
                }
            }
        }
    }
}

impl Obs {
    pub fn short(&self) -> String {
        let s = serde_json::to_string(self).unwrap_or_default();
        if s.len() > 160 {
            format!("{}...", &s[..160])
        } else {
            s
        }
    }
}
