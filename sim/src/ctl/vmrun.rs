//! One simulated run of a compiled program on a fresh (or supplied) VM under a controller.
use super::obs::{observe, Obs};
use super::vmctl::{Counters, CtlConfig, Finding, VmCtl};
use crate::kernel::worker::{catch, PanicRecord};
use cao_lang::prelude::*;
use cao_lang::vm::runtime::RuntimeData;
use serde::{Deserialize, Serialize};
use serde_json::{json, Value as Json};
use std::collections::BTreeMap;
use std::sync::atomic::Ordering;

#[derive(Clone, Debug, Serialize, Deserialize, PartialEq)]
pub struct Knobs {
    pub budget: u64,
    pub mem_limit: usize,
    pub value_stack: usize,
    pub call_stack: usize,
    /// Some(L0): the VM is created with limit L0 and then switched to `mem_limit` with
    /// `RuntimeData::set_memory_limit`, as an embedder does on a VM it already has
    #[serde(default)]
    pub limit_from: Option<usize>,
}

impl Default for Knobs {
    fn default() -> Self {
        Knobs {
            budget: 1 << 40,
            mem_limit: 400 * 1024,
            value_stack: 256,
            call_stack: 256,
            limit_from: None,
        }
    }
}

#[derive(Clone, Debug, Serialize, Deserialize, PartialEq)]
pub enum HostDecision {
    Default,
    /// return Err from the stub
    Fail,
    /// skip the stub's action and return nil
    ReturnNil,
}

#[derive(Clone, Debug, Default, Serialize, Deserialize, PartialEq)]
pub struct HostPlan {
    /// decision for the k-th host-stub invocation of the run (sparse)
    pub at: BTreeMap<u64, HostDecision>,
}

#[derive(Clone, Debug, PartialEq, Serialize, Deserialize)]
pub struct HostCall {
    pub name: String,
    pub args: Vec<Obs>,
    pub decision: String,
    pub stack_height: usize,
    pub call_depth: usize,
    pub dispatches: u64,
    /// allocations made by the run so far
    #[serde(default)]
    pub allocs: u64,
}

/// auxiliary data of the simulated VM: the host side of the simulation
pub struct Host {
    pub ctl: VmCtl,
    pub plan: HostPlan,
    pub ncalls: u64,
    pub log: Vec<HostCall>,
    pub reenter_depth: u64,
    pub max_reenter_depth: u64,
    pub fails_fired: u64,
    /// callee failures swallowed by try0
    pub swallowed: u64,
    pub swallowed_kinds: Vec<String>,
}

impl Host {
    pub fn new(ctl: VmCtl, plan: HostPlan) -> Self {
        Host {
            ctl,
            plan,
            ncalls: 0,
            log: vec![],
            reenter_depth: 0,
            max_reenter_depth: 0,
            fails_fired: 0,
            swallowed: 0,
            swallowed_kinds: vec![],
        }
    }
}

type R = Result<Value, ExecutionErrorPayload>;

/// the value of a guarded object, without releasing the guard
pub fn gval(g: &cao_lang::vm::runtime::cao_lang_object::ObjectGcGuard) -> Value {
    Value::Object(std::ptr::NonNull::from(&**g))
}

fn enter(vm: &mut Vm<Host>, name: &str, args: &[Value]) -> HostDecision {
    let k = vm.auxiliary_data.ncalls;
    vm.auxiliary_data.ncalls += 1;
    let d = vm
        .auxiliary_data
        .plan
        .at
        .get(&k)
        .cloned()
        .unwrap_or(HostDecision::Default);
    let ctl = vm.auxiliary_data.ctl.clone();
    ctl.host_enter(name, args);
    let call = HostCall {
        name: name.to_string(),
        args: args.iter().map(|a| observe(*a)).collect(),
        decision: format!("{d:?}"),
        stack_height: vm.runtime_data.verif_stack_height(),
        call_depth: vm.runtime_data.verif_call_depth(),
        dispatches: ctl.counters().dispatches,
        allocs: ctl.counters().allocs,
    };
    vm.auxiliary_data.log.push(call);
    if d == HostDecision::Fail {
        vm.auxiliary_data.fails_fired += 1;
    }
    d
}

fn leave(vm: &mut Vm<Host>, r: R) -> R {
    let ctl = vm.auxiliary_data.ctl.clone();
    // A2 at host return
    ctl.audit_now(&vm.runtime_data, "at host-function return");
    ctl.host_exit();
    r
}

fn injected() -> ExecutionErrorPayload {
    ExecutionErrorPayload::invalid_argument("injected host failure")
}

pub fn stub_log(vm: &mut Vm<Host>, v: Value) -> R {
    match enter(vm, "log", &[v]) {
        HostDecision::Fail => leave(vm, Err(injected())),
        _ => leave(vm, Ok(Value::Nil)),
    }
}

pub fn stub_id(vm: &mut Vm<Host>, v: Value) -> R {
    match enter(vm, "id", &[v]) {
        HostDecision::Fail => leave(vm, Err(injected())),
        HostDecision::ReturnNil => leave(vm, Ok(Value::Nil)),
        HostDecision::Default => leave(vm, Ok(v)),
    }
}

/// allocates a table and two strings under guards, returns {"v": v, "n": "payload"}
pub fn stub_mk_table(vm: &mut Vm<Host>, v: Value) -> R {
    match enter(vm, "mk_table", &[v]) {
        HostDecision::Fail => return leave(vm, Err(injected())),
        HostDecision::ReturnNil => return leave(vm, Ok(Value::Nil)),
        HostDecision::Default => {}
    }
    let r = (|| -> R {
        let mut t = vm.init_table()?;
        let k1 = vm.init_string("v")?;
        let k2 = vm.init_string("n")?;
        let s = vm.init_string("host payload string")?;
        {
            let table = t.as_table_mut().unwrap();
            table.insert(gval(&k1), v)?;
            table.insert(gval(&k2), gval(&s))?;
        }
        // all guards are alive until here; nothing allocates between their release and the
        // push of the result by the VM
        Ok(gval(&t))
    })();
    leave(vm, r)
}

/// allocates a string whose length depends on the argument
pub fn stub_mk_str(vm: &mut Vm<Host>, v: Value) -> R {
    match enter(vm, "mk_str", &[v]) {
        HostDecision::Fail => return leave(vm, Err(injected())),
        HostDecision::ReturnNil => return leave(vm, Ok(Value::Nil)),
        HostDecision::Default => {}
    }
    let n = match v {
        Value::Integer(i) => i.rem_euclid(40) as usize,
        _ => 3,
    };
    let r = (|| -> R {
        let s = vm.init_string(&"x".repeat(n))?;
        if n % 2 == 1 {
            // the way the crate's own examples hand an object back: the guard is consumed
            Ok(Value::Object(s.into_inner()))
        } else {
            Ok(gval(&s))
        }
    })();
    leave(vm, r)
}

fn reenter(vm: &mut Vm<Host>, name: &str, f: Value, args: &[Value]) -> R {
    let all: Vec<Value> = std::iter::once(f).chain(args.iter().copied()).collect();
    match enter(vm, name, &all) {
        HostDecision::Fail => return leave(vm, Err(injected())),
        HostDecision::ReturnNil => return leave(vm, Ok(Value::Nil)),
        HostDecision::Default => {}
    }
    vm.auxiliary_data.reenter_depth += 1;
    if vm.auxiliary_data.reenter_depth > vm.auxiliary_data.max_reenter_depth {
        vm.auxiliary_data.max_reenter_depth = vm.auxiliary_data.reenter_depth;
    }
    let r = (|| -> R {
        for a in args {
            vm.stack_push(*a)?;
        }
        vm.run_function(f)
    })();
    vm.auxiliary_data.reenter_depth -= 1;
    if name == "try0" {
        // a host that survives the failure of its callback and carries on
        if let Err(e) = &r {
            vm.auxiliary_data.swallowed += 1;
            let k = error_kind(e);
            vm.auxiliary_data.swallowed_kinds.push(k);
        }
        return leave(vm, Ok(r.unwrap_or(Value::Nil)));
    }
    leave(vm, r)
}

pub fn stub_call0(vm: &mut Vm<Host>, f: Value) -> R {
    reenter(vm, "call0", f, &[])
}
pub fn stub_try0(vm: &mut Vm<Host>, f: Value) -> R {
    reenter(vm, "try0", f, &[])
}
pub fn stub_call1(vm: &mut Vm<Host>, f: Value, a: Value) -> R {
    reenter(vm, "call1", f, &[a])
}
pub fn stub_call2(vm: &mut Vm<Host>, f: Value, a: Value, b: Value) -> R {
    reenter(vm, "call2", f, &[a, b])
}

pub fn stub_fail(vm: &mut Vm<Host>, v: Value) -> R {
    let _ = enter(vm, "fail", &[v]);
    vm.auxiliary_data.fails_fired += 1;
    leave(vm, Err(ExecutionErrorPayload::invalid_argument("stub failure")))
}

/// records where it was called (stack height, call depth, dispatch count): used to place faults
pub fn stub_mark(vm: &mut Vm<Host>, v: Value) -> R {
    let _ = enter(vm, "mark", &[v]);
    leave(vm, Ok(Value::Nil))
}

/// builds a nested value through the host API `Vm::insert_value` (OwnedValue -> runtime value)
pub fn stub_mk_owned(vm: &mut Vm<Host>, v: Value) -> R {
    match enter(vm, "mk_owned", &[v]) {
        HostDecision::Fail => return leave(vm, Err(injected())),
        HostDecision::ReturnNil => return leave(vm, Ok(Value::Nil)),
        HostDecision::Default => {}
    }
    let n = match v {
        Value::Integer(i) => i.rem_euclid(5) as usize,
        _ => 2,
    };
    let inner = OwnedValue::Table(
        (0..n + 1)
            .map(|i| OwnedEntry { key: OwnedValue::String(format!("inner{i}")), value: OwnedValue::String(format!("payload {i}")) })
            .collect(),
    );
    let owned = OwnedValue::Table(vec![
        OwnedEntry { key: OwnedValue::String("name".into()), value: OwnedValue::String("owned value".into()) },
        OwnedEntry { key: OwnedValue::Integer(1), value: inner.clone() },
        OwnedEntry { key: OwnedValue::String("again".into()), value: inner },
        OwnedEntry { key: OwnedValue::Real(2.5), value: OwnedValue::Nil },
    ]);
    let r = vm.insert_value(&owned);
    leave(vm, r)
}

/// three parameters, returns the first
pub fn stub_t3(vm: &mut Vm<Host>, a: Value, b: Value, c: Value) -> R {
    let _ = enter(vm, "t3", &[a, b, c]);
    leave(vm, Ok(a))
}

pub const STUB_NAMES: [&str; 12] = [
    "log", "id", "mk_table", "mk_str", "call0", "call1", "call2", "fail", "mark", "t3", "mk_owned", "try0",
];

pub fn register_stubs(vm: &mut Vm<Host>) {
    vm.register_native_function("log", into_f1(stub_log)).unwrap();
    vm.register_native_function("id", into_f1(stub_id)).unwrap();
    vm.register_native_function("mk_table", into_f1(stub_mk_table)).unwrap();
    vm.register_native_function("mk_str", into_f1(stub_mk_str)).unwrap();
    vm.register_native_function("call0", into_f1(stub_call0)).unwrap();
    vm.register_native_function("call1", into_f2(stub_call1)).unwrap();
    vm.register_native_function("call2", into_f3(stub_call2)).unwrap();
    vm.register_native_function("fail", into_f1(stub_fail)).unwrap();
    vm.register_native_function("mark", into_f1(stub_mark)).unwrap();
    vm.register_native_function("t3", into_f3(stub_t3)).unwrap();
    vm.register_native_function("mk_owned", into_f1(stub_mk_owned)).unwrap();
    vm.register_native_function("try0", into_f1(stub_try0)).unwrap();
}

pub fn error_kind(e: &ExecutionErrorPayload) -> String {
    match e {
        ExecutionErrorPayload::CallStackOverflow => "CallStackOverflow".into(),
        ExecutionErrorPayload::UnexpectedEndOfInput => "UnexpectedEndOfInput".into(),
        ExecutionErrorPayload::ExitCode(_) => "ExitCode".into(),
        ExecutionErrorPayload::InvalidInstruction(_) => "InvalidInstruction".into(),
        ExecutionErrorPayload::InvalidArgument { .. } => "InvalidArgument".into(),
        ExecutionErrorPayload::VarNotFound(_) => "VarNotFound".into(),
        ExecutionErrorPayload::ProcedureNotFound(_) => "ProcedureNotFound".into(),
        ExecutionErrorPayload::Unimplemented => "Unimplemented".into(),
        ExecutionErrorPayload::OutOfMemory => "OutOfMemory".into(),
        ExecutionErrorPayload::MissingArgument => "MissingArgument".into(),
        ExecutionErrorPayload::Timeout => "Timeout".into(),
        ExecutionErrorPayload::TaskFailure { name, error } => {
            format!("TaskFailure({name}):{}", error_kind(error))
        }
        ExecutionErrorPayload::Stackoverflow => "Stackoverflow".into(),
        ExecutionErrorPayload::BadReturn { .. } => "BadReturn".into(),
        ExecutionErrorPayload::Unhashable => "Unhashable".into(),
        ExecutionErrorPayload::AssertionError(_) => "AssertionError".into(),
        ExecutionErrorPayload::InvalidUpvalue => "InvalidUpvalue".into(),
        ExecutionErrorPayload::NotClosure => "NotClosure".into(),
    }
}

/// innermost error kind (TaskFailure wrappers removed)
pub fn innermost(kind: &str) -> &str {
    kind.rsplit(':').next().unwrap_or(kind)
}

#[derive(Clone, Debug)]
pub struct RunOut {
    /// "Ok" or the error kind
    pub result: String,
    pub error_msg: String,
    pub trace: Vec<Trace>,
    pub globals: BTreeMap<String, Obs>,
    pub host_log: Vec<HostCall>,
    pub counters: Counters,
    pub findings: Vec<Finding>,
    pub panic: Option<PanicRecord>,
    /// the run was unwound by the controller (observer budget exceeded)
    pub aborted: bool,
    pub end_stack_height: usize,
    pub end_call_depth: usize,
    pub end_allocated: usize,
    pub end_objects: usize,
    pub peak_stack_height: usize,
    pub host_fails_fired: u64,
    /// the memory limit the run was really subject to (None while swept memory is quarantined:
    /// the controller then keeps the limit out of reach)
    pub enforced_mem_limit: Option<usize>,
    pub host_swallowed: u64,
    pub host_swallowed_kinds: Vec<String>,
    pub max_reenter_depth: u64,
    pub event_hash: u64,
    pub events: Vec<String>,
    /// findings of the teardown (ledger empty, allocated == 0 after clear)
    pub teardown_ok: bool,
}

impl RunOut {
    /// the user-visible observation: result kind, globals by name, host-call log (name, args)
    pub fn obs(&self) -> Json {
        json!({
            "result": self.result,
            "globals": self.globals,
            "host_log": self.host_log.iter().map(|c| json!({"name": c.name, "args": c.args, "decision": c.decision})).collect::<Vec<_>>(),
        })
    }
    pub fn completed(&self) -> bool {
        self.panic.is_none() && !self.aborted
    }
}

pub fn read_globals(vm: &Vm<Host>, program: &CaoCompiledProgram) -> BTreeMap<String, Obs> {
    let mut out = BTreeMap::new();
    for (_h, name) in program.variables.names.iter() {
        if let Some(v) = vm.read_var_by_name(name, &program.variables) {
            out.insert(name.clone(), observe(v));
        }
    }
    out
}

pub fn new_vm(ctl: &VmCtl, knobs: &Knobs, plan: HostPlan) -> Option<Vm<'static, Host>> {
    let mut vm = Vm::new(Host::new(ctl.clone(), plan)).ok()?;
    vm.runtime_data = RuntimeData::new(knobs.limit_from.unwrap_or(knobs.mem_limit), knobs.value_stack.max(1), knobs.call_stack).ok()?;
    if knobs.limit_from.is_some() {
        vm.runtime_data.set_memory_limit(knobs.mem_limit);
    }
    vm.max_instr = knobs.budget;
    register_stubs(&mut vm);
    Some(vm)
}

/// Collect the post-run state into a RunOut (the VM stays usable)
pub fn collect(
    vm: &mut Vm<Host>,
    ctl: &VmCtl,
    program: &CaoCompiledProgram,
    r: Result<Result<(), ExecutionError>, PanicRecord>,
    observe_globals: bool,
) -> RunOut {
    ctl.settle(&vm.runtime_data);
    let (result, error_msg, trace, panic, aborted) = match r {
        Ok(Ok(())) => ("Ok".to_string(), String::new(), vec![], None, false),
        Ok(Err(e)) => (error_kind(&e.payload), format!("{}", e.payload), e.trace, None, false),
        Err(p) if p.msg == "ctl-abort" => ("<aborted>".to_string(), String::new(), vec![], None, true),
        Err(p) => ("<panic>".to_string(), p.msg.clone(), vec![], Some(p), false),
    };
    if panic.is_none() && !aborted {
        ctl.audit_now(&vm.runtime_data, "at run end");
        ctl.check_no_live_guards("at run end");
    }
    let globals = if observe_globals && panic.is_none() && !aborted {
        read_globals(vm, program)
    } else {
        BTreeMap::new()
    };
    let view = vm.runtime_data.verif_view();
    let end_allocated = view.memory.allocated.load(Ordering::Relaxed);
    let end_objects = view.object_list.len();
    RunOut {
        result,
        error_msg,
        trace,
        globals,
        host_log: std::mem::take(&mut vm.auxiliary_data.log),
        counters: ctl.counters(),
        findings: ctl.findings(),
        panic,
        aborted,
        end_stack_height: vm.runtime_data.verif_stack_height(),
        end_call_depth: vm.runtime_data.verif_call_depth(),
        end_allocated,
        end_objects,
        peak_stack_height: 0,
        host_fails_fired: vm.auxiliary_data.fails_fired,
        enforced_mem_limit: None,
        host_swallowed: vm.auxiliary_data.swallowed,
        host_swallowed_kinds: vm.auxiliary_data.swallowed_kinds.clone(),
        max_reenter_depth: vm.auxiliary_data.max_reenter_depth,
        event_hash: ctl.event_hash(),
        events: vec![],
        teardown_ok: true,
    }
}

/// Tear a VM down: release quarantined objects for real, drop the VM, check the ledger.
pub fn teardown(mut vm: Vm<Host>, ctl: &VmCtl, out: &mut RunOut) {
    let was_quarantine = ctl.0.borrow().cfg.quarantine;
    ctl.set_cfg(|c| c.quarantine = false);
    let unwound = out.panic.is_some() || out.aborted;
    let ctl2 = ctl.clone();
    let r = catch(move || {
        for obj in ctl2.drain_quarantine() {
            vm.runtime_data.free_object(obj);
        }
        vm.clear();
        let left = vm
            .runtime_data
            .verif_view()
            .memory
            .allocated
            .load(Ordering::Relaxed);
        let objs = vm.runtime_data.verif_view().object_list.len();
        let h = vm.runtime_data.verif_stack_height();
        let d = vm.runtime_data.verif_call_depth();
        ctl2.settle(&vm.runtime_data);
        drop(vm);
        (left, objs, h, d)
    });
    match r {
        Ok((left, objs, h, d)) => {
            if !was_quarantine && !unwound {
                let mut s = ctl.0.borrow_mut();
                if left != 0 || s_ledger_len(&s) != 0 {
                    let n = s_ledger_len(&s);
                    s.findings.push(Finding {
                        kind: "accounted-nonzero-after-clear".into(),
                        sig: json!({"inv": "allocated==0-after-clear"}),
                        what: format!("after clear the allocator still accounts {left} bytes, {n} block(s) outstanding in the ledger"),
                    });
                }
                if objs != 0 || h != 0 || d != 0 {
                    s.findings.push(Finding {
                        kind: "clear-left-state".into(),
                        sig: json!({"inv": "clear-empties-vm"}),
                        what: format!("after clear: {objs} objects, stack height {h}, call depth {d}"),
                    });
                }
            }
        }
        Err(p) => {
            out.teardown_ok = false;
            if !unwound {
                ctl.0.borrow_mut().findings.push(Finding {
                    kind: "panic-in-clear".into(),
                    sig: json!({"inv": "clear-does-not-panic", "site": format!("{}:{}", crate::kernel::worker::short_path(&p.file), p.line)}),
                    what: format!("panic while clearing / dropping the VM: {}", p.msg),
                });
            }
        }
    }
    out.findings = ctl.findings();
}

fn s_ledger_len(s: &super::vmctl::State) -> usize {
    s.ledger_len()
}

/// One complete simulated run on a fresh VM.
pub fn run_program(
    program: &CaoCompiledProgram,
    knobs: &Knobs,
    cfg: CtlConfig,
    plan: HostPlan,
) -> RunOut {
    let want_events = cfg.event_log;
    let enforced = if cfg.quarantine { None } else { Some(knobs.mem_limit) };
    let ctl = VmCtl::new(cfg);
    ctl.install();
    let Some(mut vm) = new_vm(&ctl, knobs, plan) else {
        VmCtl::uninstall();
        let mut out = empty_out();
        out.result = "<vm-init-failed>".into();
        return out;
    };
    let r = catch(|| vm.run(program));
    let mut out = collect(&mut vm, &ctl, program, r, true);
    teardown(vm, &ctl, &mut out);
    VmCtl::uninstall();
    out.counters = ctl.counters();
    out.enforced_mem_limit = enforced;
    out.event_hash = ctl.event_hash();
    if want_events {
        out.events = ctl.take_events();
    }
    out
}

pub fn empty_out() -> RunOut {
    RunOut {
        result: String::new(),
        error_msg: String::new(),
        trace: vec![],
        globals: BTreeMap::new(),
        host_log: vec![],
        counters: Counters::default(),
        findings: vec![],
        panic: None,
        aborted: false,
        end_stack_height: 0,
        end_call_depth: 0,
        end_allocated: 0,
        end_objects: 0,
        peak_stack_height: 0,
        host_fails_fired: 0,
        enforced_mem_limit: None,
        host_swallowed: 0,
        host_swallowed_kinds: vec![],
        max_reenter_depth: 0,
        event_hash: 0,
        events: vec![],
        teardown_ok: true,
    }
}
